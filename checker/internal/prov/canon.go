package prov

import (
	_ "embed"
	"encoding/json"
	"go/ast"
	"go/token"
	"go/types"
	"sort"
	"sync"

	"golang.org/x/tools/go/ssa"
)

// Canonical names.  Rule tables refer to parameters and local variables by
// the names they had on the tree the tables were written against
// (names.json, generated with `wpverif -gen-names`).  A parameter is
// identified by its position in the signature and a local by its position in
// the function's sequence of declared names, so renaming either does not
// change any rendered term: the current sequence is aligned with the frozen
// one (equal names anchor the alignment; between two anchors, stretches of
// equal length are paired position-wise) and every current name is rendered
// as the frozen name it is paired with.  Names without a partner (new
// variables, new functions) render as they are.

//go:embed names.json
var namesJSON []byte

// FnNames is the frozen record of one function.
type FnNames struct {
	Sig    []string `json:"sig"`    // receiver, parameters, named results
	Locals []string `json:"locals"` // distinct declared names in source order
}

var (
	frozenOnce sync.Once
	frozen     map[string]FnNames
	canonMu    sync.Mutex
	canonMemo  = map[*ssa.Function][2]map[string]string{}
	// Disabled switches the layer off (used when generating names.json).
	Disabled bool
)

func loadFrozen() {
	frozen = map[string]FnNames{}
	if len(namesJSON) > 0 {
		_ = json.Unmarshal(namesJSON, &frozen)
	}
}

// CurrentNames extracts the two name sequences of fn from its syntax.
func CurrentNames(fn *ssa.Function) (FnNames, bool) {
	var out FnNames
	syn := fn.Syntax()
	if syn == nil {
		return out, false
	}
	var ftype *ast.FuncType
	var body *ast.BlockStmt
	switch n := syn.(type) {
	case *ast.FuncDecl:
		ftype, body = n.Type, n.Body
		if n.Recv != nil {
			for _, f := range n.Recv.List {
				for _, id := range f.Names {
					out.Sig = append(out.Sig, id.Name)
				}
				if len(f.Names) == 0 {
					out.Sig = append(out.Sig, "_")
				}
			}
		}
	case *ast.FuncLit:
		ftype, body = n.Type, n.Body
	default:
		return out, false
	}
	fields := func(fl *ast.FieldList) {
		if fl == nil {
			return
		}
		for _, f := range fl.List {
			for _, id := range f.Names {
				out.Sig = append(out.Sig, id.Name)
			}
			if len(f.Names) == 0 {
				out.Sig = append(out.Sig, "_")
			}
		}
	}
	fields(ftype.Params)
	fields(ftype.Results)
	seen := map[string]bool{}
	add := func(e ast.Expr) {
		if id, ok := e.(*ast.Ident); ok && id.Name != "_" && !seen[id.Name] {
			seen[id.Name] = true
			out.Locals = append(out.Locals, id.Name)
		}
	}
	if body != nil {
		ast.Inspect(body, func(n ast.Node) bool {
			switch x := n.(type) {
			case *ast.FuncLit:
				return false
			case *ast.AssignStmt:
				if x.Tok == token.DEFINE {
					for _, l := range x.Lhs {
						add(l)
					}
				}
			case *ast.ValueSpec:
				for _, id := range x.Names {
					add(id)
				}
			case *ast.RangeStmt:
				if x.Tok == token.DEFINE {
					if x.Key != nil {
						add(x.Key)
					}
					if x.Value != nil {
						add(x.Value)
					}
				}
			case *ast.TypeSwitchStmt:
				if as, ok := x.Assign.(*ast.AssignStmt); ok && as.Tok == token.DEFINE {
					for _, l := range as.Lhs {
						add(l)
					}
				}
			}
			return true
		})
	}
	return out, true
}

// align maps every name of cur to the frozen name it is paired with.
func align(cur, fro []string) map[string]string {
	m := map[string]string{}
	n, k := len(cur), len(fro)
	// LCS on equal names
	l := make([][]int, n+1)
	for i := range l {
		l[i] = make([]int, k+1)
	}
	for i := n - 1; i >= 0; i-- {
		for j := k - 1; j >= 0; j-- {
			if cur[i] == fro[j] {
				l[i][j] = l[i+1][j+1] + 1
			} else if l[i+1][j] >= l[i][j+1] {
				l[i][j] = l[i+1][j]
			} else {
				l[i][j] = l[i][j+1]
			}
		}
	}
	i, j := 0, 0
	gi, gj := 0, 0 // start of the current gap
	flush := func(ei, ej int) {
		if ei-gi == ej-gj {
			for d := 0; d < ei-gi; d++ {
				m[cur[gi+d]] = fro[gj+d]
			}
		}
	}
	for i < n && j < k {
		switch {
		case cur[i] == fro[j]:
			flush(i, j)
			m[cur[i]] = fro[j]
			i++
			j++
			gi, gj = i, j
		case l[i+1][j] >= l[i][j+1]:
			i++
		default:
			j++
		}
	}
	flush(n, k)
	// a name may be the target of one current name only
	used := map[string]string{}
	keys := make([]string, 0, len(m))
	for c := range m {
		keys = append(keys, c)
	}
	sort.Strings(keys)
	for _, c := range keys {
		f := m[c]
		if o, dup := used[f]; dup && o != c {
			if c == f {
				delete(m, o)
				used[f] = c
			} else {
				delete(m, c)
			}
			continue
		}
		used[f] = c
	}
	return m
}

func canonMaps(fn *ssa.Function) [2]map[string]string {
	canonMu.Lock()
	defer canonMu.Unlock()
	if m, ok := canonMemo[fn]; ok {
		return m
	}
	frozenOnce.Do(loadFrozen)
	var res [2]map[string]string
	if fr, ok := frozen[FuncString(fn)]; ok && !Disabled {
		if cur, ok := CurrentNames(fn); ok {
			// parameters: by position when the arity is unchanged
			if len(cur.Sig) == len(fr.Sig) {
				res[0] = map[string]string{}
				for i := range cur.Sig {
					res[0][cur.Sig[i]] = fr.Sig[i]
				}
			} else {
				res[0] = align(cur.Sig, fr.Sig)
			}
			res[1] = align(cur.Locals, fr.Locals)
		}
	}
	canonMemo[fn] = res
	return res
}

// CanonParam renders the name of a parameter (or named result) of fn.
func CanonParam(fn *ssa.Function, name string) string {
	if fn == nil {
		return name
	}
	if m := canonMaps(fn)[0]; m != nil {
		if c, ok := m[name]; ok {
			return c
		}
	}
	return name
}

// CanonLocal renders the name of a local variable of fn (also used for the
// variable names go/ssa records as comments on phis and allocs).  A named
// result or a parameter spilled to an alloc carries the parameter's name.
func CanonLocal(fn *ssa.Function, name string) string {
	if fn == nil {
		return name
	}
	ms := canonMaps(fn)
	if ms[1] != nil {
		if c, ok := ms[1][name]; ok {
			return c
		}
	}
	if ms[0] != nil {
		if c, ok := ms[0][name]; ok {
			return c
		}
	}
	return name
}

// CanonFree renders a captured variable: it is a local or parameter of an
// enclosing function.
func CanonFree(fn *ssa.Function, name string) string {
	for p := fn.Parent(); p != nil; p = p.Parent() {
		if cur, ok := CurrentNames(p); ok {
			for _, l := range cur.Locals {
				if l == name {
					return CanonLocal(p, name)
				}
			}
			for _, s := range cur.Sig {
				if s == name {
					return CanonParam(p, name)
				}
			}
		}
	}
	return name
}

// KnownFunction: fn existed, under this name, on the tree the rule tables were
// written against.
func KnownFunction(fn *ssa.Function) bool {
	frozenOnce.Do(loadFrozen)
	_, ok := frozen[FuncString(fn)]
	return ok
}

// TypeString is the rendering of a type used in terms and in the type table.
func TypeString(t types.Type) string { return typeName(t) }

// KnownType: the named type existed on the tree the rule tables were written
// against (listed under "#types" in names.json).  Without a type table every
// type counts as known.
func KnownType(t types.Type) bool {
	frozenOnce.Do(loadFrozen)
	tt, ok := frozen["#types"]
	if !ok {
		return true
	}
	n := typeName(t)
	for _, k := range tt.Sig {
		if k == n {
			return true
		}
	}
	return false
}

// FreeKnown: the captured variable has a partner in the frozen table (or the
// enclosing function has no frozen record at all, so nothing can be said).
func FreeKnown(fn *ssa.Function, name string) bool {
	frozenOnce.Do(loadFrozen)
	for p := fn.Parent(); p != nil; p = p.Parent() {
		fr, ok := frozen[FuncString(p)]
		if !ok {
			return true
		}
		c := CanonFree(fn, name)
		for _, l := range fr.Locals {
			if l == c {
				return true
			}
		}
		for _, l := range fr.Sig {
			if l == c {
				return true
			}
		}
		return false
	}
	return true
}
