// Package prov renders the provenance of an SSA value as a canonical term:
// a backward slice through extracts, calls, field/index loads, conversions and
// phis.  Terms are compared as strings (with '*' globs) by the rule tables.
//
// Grammar (informal):
//
//	param:NAME | free:NAME | const:VAL | global:PKG.NAME | func:NAME
//	T.field           field of T (through pointer or value); T is a term
//	T[const:0] T[_]   element
//	slice(T,lo,hi)    re-slicing (makes a match non-exact on purpose)
//	call:F(args)#i    i-th result of a call to the resolved callee F
//	invoke:I.M(recv,args)#i   interface method call
//	conv(T)           representation-changing conversion
//	assert:TYPE(T)    type assertion
//	(T op U)  !T  len(T)  cap(T)  phi(T|U|...)  make(...)  alloc:TYPE
package prov

import (
	"fmt"
	"go/constant"
	"go/token"
	"go/types"
	"sort"
	"strings"

	"golang.org/x/tools/go/ssa"
)

const maxDepth = 40

// substStack: while a callee is examined on behalf of one call site, its
// parameters render as the terms of that site's arguments (PushSubst), so that
// a gate written in the caller's terms is recognised inside a helper.
var substStack []map[*ssa.Parameter]string

// substVals: the argument values behind substStack (same frames).
var substVals []map[*ssa.Parameter]ssa.Value

// PushSubst renders the arguments of call in the current context and makes
// callee's parameters stand for them until PopSubst.  It returns a signature
// of the substitution (for memo keys).
func PushSubst(callee *ssa.Function, call *ssa.CallCommon) string {
	m := map[*ssa.Parameter]string{}
	mv := map[*ssa.Parameter]ssa.Value{}
	var sig []string
	if !call.IsInvoke() && len(call.Args) == len(callee.Params) {
		for i, p := range callee.Params {
			t := Of(call.Args[i])
			m[p] = t
			mv[p] = call.Args[i]
			sig = append(sig, t)
		}
	}
	substStack = append(substStack, m)
	substVals = append(substVals, mv)
	return strings.Join(sig, ";")
}

func PopSubst() {
	substStack = substStack[:len(substStack)-1]
	substVals = substVals[:len(substVals)-1]
}

// forwardField: base.field where base is (a copy of) a local struct literal
// of a type the rule tables do not know (a small carrier type introduced by a
// refactoring): the value the literal stored in that field.  The literal must
// not escape its function (so nothing else can write the field) and the field
// must be stored exactly once.  Under a substitution the base may be a
// parameter of the helper: the literal is then looked up in the caller and the
// stored value rendered in the caller's context.
func forwardField(base ssa.Value, field int, d int) (string, bool) {
	frame := len(substStack)
	v := base
	for hop := 0; hop < 8; hop++ {
		switch b := v.(type) {
		case *ssa.UnOp:
			if b.Op != token.MUL {
				return "", false
			}
			v = b.X
		case *ssa.Parameter:
			if frame == 0 {
				return "", false
			}
			a, ok := substVals[frame-1][b]
			if !ok {
				return "", false
			}
			v = a
			frame--
		case *ssa.Alloc:
			if b.Heap || b.Referrers() == nil {
				return "", false
			}
			// a spilled parameter (value receiver whose fields are addressed)
			var whole []ssa.Value
			var stored []ssa.Value
			for _, ref := range *b.Referrers() {
				switch x := ref.(type) {
				case *ssa.Store:
					if x.Addr == b {
						whole = append(whole, x.Val)
					}
				case *ssa.FieldAddr:
					if x.Referrers() == nil {
						continue
					}
					for _, rr := range *x.Referrers() {
						if st, ok := rr.(*ssa.Store); ok && st.Addr == x {
							if x.Field == field {
								stored = append(stored, st.Val)
							}
						} else if _, isLoad := rr.(*ssa.UnOp); !isLoad {
							// the field's address goes somewhere else
							if x.Field == field {
								return "", false
							}
						}
					}
				}
			}
			if len(whole) == 1 && len(stored) == 0 {
				v = whole[0]
				continue
			}
			if len(whole) != 0 || len(stored) != 1 {
				return "", false
			}
			st, ok := deref(b.Type()).Underlying().(*types.Struct)
			if !ok || KnownType(deref(b.Type())) {
				return "", false
			}
			_ = st
			// render in the frame the literal lives in
			saveS, saveV := substStack, substVals
			substStack, substVals = substStack[:frame], substVals[:frame]
			t := render(stored[0], d+1, map[ssa.Value]bool{})
			substStack, substVals = saveS, saveV
			return t, true
		default:
			return "", false
		}
	}
	return "", false
}

// SubstValue: the argument value a parameter of the helper under examination
// stands for (innermost substitution frame).
func SubstValue(p *ssa.Parameter) (ssa.Value, bool) {
	if n := len(substVals); n > 0 {
		v, ok := substVals[n-1][p]
		return v, ok
	}
	return nil, false
}

// SubstDepth is the number of active substitution frames.
func SubstDepth() int { return len(substStack) }

// Of renders the provenance term of v.
func Of(v ssa.Value) string {
	return render(v, 0, map[ssa.Value]bool{})
}

func typeName(t types.Type) string {
	return types.TypeString(t, func(p *types.Package) string {
		// last path element only: keeps terms short and stable
		path := p.Path()
		if i := strings.LastIndex(path, "/"); i >= 0 {
			// distinguish the two version packages
			if strings.HasSuffix(path, "bundle/version") {
				return "bundle/version"
			}
			if strings.HasSuffix(path, "signedexchange/version") {
				return "signedexchange/version"
			}
			return path[i+1:]
		}
		return path
	})
}

// CalleeName gives the resolved name of the callee of a call:
// "bytes.Equal", "(*certurl.AugmentedCertificate).CertSha256",
// "invoke:signingalgorithm.Verifier.Verify", "builtin:len", "dyn:<provenance of the function value>".
// stdlibAlias: equivalent standard-library entry points render under one
// name (deprecated ioutil wrappers; a read-only bytes.Reader and a
// bytes.Buffer used for reading).
var stdlibAlias = map[string]string{
	"ioutil.ReadAll": "io.ReadAll", "ioutil.ReadFile": "os.ReadFile", "ioutil.WriteFile": "os.WriteFile",
	"ioutil.ReadDir": "os.ReadDir", "ioutil.NopCloser": "io.NopCloser",
	"bytes.NewReader": "bytes.NewBuffer", "(*bytes.Reader).ReadByte": "(*bytes.Buffer).ReadByte",
	"(*bytes.Reader).Read": "(*bytes.Buffer).Read", "(*bytes.Reader).Len": "(*bytes.Buffer).Len",
}

func CalleeName(c *ssa.CallCommon) string {
	n := calleeName(c)
	if a, ok := stdlibAlias[n]; ok {
		return a
	}
	return n
}

func calleeName(c *ssa.CallCommon) string {
	if c.IsInvoke() {
		return "invoke:" + typeName(c.Value.Type()) + "." + c.Method.Name()
	}
	switch f := c.Value.(type) {
	case *ssa.Function:
		return FuncString(f)
	case *ssa.Builtin:
		return "builtin:" + f.Name()
	case *ssa.MakeClosure:
		if fn, ok := f.Fn.(*ssa.Function); ok {
			return FuncString(fn)
		}
	case *ssa.Parameter:
		// a function-typed parameter of a helper examined on behalf of a call
		// site is the function that site passed
		if n := len(substVals); n > 0 {
			if a, ok := substVals[n-1][f]; ok {
				for {
					if ct, ok := a.(*ssa.ChangeType); ok {
						a = ct.X
						continue
					}
					break
				}
				switch g := a.(type) {
				case *ssa.Function:
					return FuncString(g)
				case *ssa.MakeClosure:
					if fn, ok := g.Fn.(*ssa.Function); ok {
						return FuncString(fn)
					}
				}
			}
		}
	}
	return "dyn:" + Of(c.Value)
}

// FuncString names a function with a short package qualifier.
func FuncString(f *ssa.Function) string {
	if f.Parent() != nil {
		// anonymous function: parent$N
		return FuncString(f.Parent()) + strings.TrimPrefix(f.Name(), f.Parent().Name())
	}
	if recv := f.Signature.Recv(); recv != nil {
		return "(" + typeName(recv.Type()) + ")." + f.Name()
	}
	if f.Pkg != nil {
		p := f.Pkg.Pkg.Path()
		if strings.HasSuffix(p, "bundle/version") {
			return "bundle/version." + f.Name()
		}
		if strings.HasSuffix(p, "signedexchange/version") {
			return "signedexchange/version." + f.Name()
		}
		if i := strings.LastIndex(p, "/"); i >= 0 {
			p = p[i+1:]
		}
		return p + "." + f.Name()
	}
	if f.Object() != nil && f.Object().Pkg() != nil {
		return f.Object().Pkg().Name() + "." + f.Name()
	}
	return f.Name()
}

func constString(c *ssa.Const) string {
	if c.Value == nil {
		return "const:nil"
	}
	switch c.Value.Kind() {
	case constant.String:
		return "const:" + fmt.Sprintf("%q", constant.StringVal(c.Value))
	default:
		return "const:" + c.Value.ExactString()
	}
}

func render(v ssa.Value, d int, onstack map[ssa.Value]bool) string {
	if v == nil {
		return "nil"
	}
	if d > maxDepth {
		return "…"
	}
	if onstack[v] {
		return "↺"
	}
	onstack[v] = true
	defer delete(onstack, v)
	r := func(x ssa.Value) string { return render(x, d+1, onstack) }

	switch x := v.(type) {
	case *ssa.Parameter:
		if n := len(substStack); n > 0 {
			if t, ok := substStack[n-1][x]; ok {
				return t
			}
		}
		return "param:" + CanonParam(x.Parent(), x.Name())
	case *ssa.FreeVar:
		// inside a helper examined on behalf of a call site, a variable captured
		// by one of the helper's closures is what the helper bound it to
		if len(substStack) > 0 {
			if b := closureBinding(x); b != nil {
				if t := r(b); strings.Contains(t, "param:") || !strings.Contains(t, "local:") {
					return t
				}
			}
		}
		// a captured variable the rule tables do not know (an expression hoisted
		// into a new local in front of the closure): what the enclosing function
		// stored in it, when that is a single value
		if !FreeKnown(x.Parent(), x.Name()) {
			if b := anyClosureBinding(x); b != nil {
				if t := r(b); !strings.HasPrefix(t, "local:") && !strings.HasPrefix(t, "phi(") {
					return t
				}
			}
		}
		return "free:" + CanonFree(x.Parent(), x.Name())
	case *ssa.Const:
		return constString(x)
	case *ssa.Global:
		return "global:" + x.Pkg.Pkg.Name() + "." + x.Name()
	case *ssa.Function:
		return "func:" + FuncString(x)
	case *ssa.Builtin:
		return "builtin:" + x.Name()
	case *ssa.Alloc:
		// a byte array filled by binary.BigEndian.PutUintN(arr[:], v) is the
		// big-endian encoding of v
		if t, ok := bigEndianArray(x, r); ok {
			return t
		}
		// a byte array filled only by io.ReadFull(R, arr[:]) is "the next N
		// bytes of R"
		if t, ok := readArray(x, r); ok {
			return t
		}
		// A local whose address is taken: the values stored into it.
		var vals []string
		seen := map[string]bool{}
		for _, ref := range *x.Referrers() {
			if st, ok := ref.(*ssa.Store); ok && st.Addr == x {
				s := r(st.Val)
				if !seen[s] {
					seen[s] = true
					vals = append(vals, s)
				}
			}
		}
		if len(vals) == 1 {
			return vals[0]
		}
		if len(vals) > 1 {
			sort.Strings(vals)
			return "phi(" + strings.Join(vals, "|") + ")"
		}
		return allocName(x)
	case *ssa.FieldAddr:
		st := deref(x.X.Type()).Underlying().(*types.Struct)
		if !KnownType(deref(x.X.Type())) {
			if t, ok := forwardField(x.X, x.Field, d); ok {
				return t
			}
		}
		return r(x.X) + "." + st.Field(x.Field).Name()
	case *ssa.Field:
		st := x.X.Type().Underlying().(*types.Struct)
		if !KnownType(x.X.Type()) {
			if t, ok := forwardField(x.X, x.Field, d); ok {
				return t
			}
		}
		return r(x.X) + "." + st.Field(x.Field).Name()
	case *ssa.IndexAddr:
		return r(x.X) + "[" + idx(x.Index, r) + "]"
	case *ssa.Index:
		return r(x.X) + "[" + idx(x.Index, r) + "]"
	case *ssa.Lookup:
		return r(x.X) + "[" + r(x.Index) + "]"
	case *ssa.Slice:
		lo, hi := "", ""
		if x.Low != nil {
			lo = r(x.Low)
		}
		if x.High != nil {
			hi = r(x.High)
		}
		if x.Low == nil && x.High == nil {
			// s[:] of an array pointer: the whole thing
			return r(x.X)
		}
		// s[0:] of a slice or string is s itself
		if k, ok := x.Low.(*ssa.Const); ok && x.High == nil && x.Max == nil && k.Value != nil && k.Value.Kind() == constant.Int && constant.Sign(k.Value) == 0 {
			if _, isPtr := x.X.Type().Underlying().(*types.Pointer); !isPtr {
				return r(x.X)
			}
		}
		return "slice(" + r(x.X) + "," + lo + "," + hi + ")"
	case *ssa.UnOp:
		switch x.Op {
		case token.MUL:
			return r(x.X)
		case token.NOT:
			return "!" + r(x.X)
		case token.SUB:
			return "-" + r(x.X)
		case token.ARROW:
			return "<-" + r(x.X)
		case token.XOR:
			return "^" + r(x.X)
		}
		return x.Op.String() + r(x.X)
	case *ssa.Phi:
		// a hand-written index loop over a slice (for i := 0; i < len(x); i++)
		// is the same thing as a range loop
		if isIndexLoopVar(x) {
			return "rangeidx"
		}
		var parts []string
		seen := map[string]bool{}
		for _, e := range x.Edges {
			s := r(e)
			if seen[s] {
				continue
			}
			seen[s] = true
			parts = append(parts, s)
		}
		sort.Strings(parts)
		if len(parts) == 1 {
			return parts[0]
		}
		return "phi(" + strings.Join(parts, "|") + ")"
	case *ssa.BinOp:
		// the induction variable of a range-over-slice loop
		if ph, ok := x.X.(*ssa.Phi); ok && ph.Comment == "rangeindex" && x.Op == token.ADD {
			return "rangeidx"
		}
		// commutative operators: a constant operand is written last
		if bt, isBasic := x.Type().Underlying().(*types.Basic); isBasic && bt.Info()&types.IsInteger != 0 {
			if _, xc := x.X.(*ssa.Const); xc {
				if _, yc := x.Y.(*ssa.Const); !yc {
					switch x.Op {
					case token.ADD, token.MUL, token.AND, token.OR, token.XOR:
						return "(" + r(x.Y) + " " + x.Op.String() + " " + r(x.X) + ")"
					}
				}
			}
		}
		return "(" + r(x.X) + " " + x.Op.String() + " " + r(x.Y) + ")"
	case *ssa.Call:
		if t, ok := inlineHelper(x, 0); ok {
			return t
		}
		// h.Values(k) is h[CanonicalHeaderKey(k)]
		if len(x.Call.Args) == 2 && !x.Call.IsInvoke() {
			if n := calleeName(&x.Call); n == "(http.Header).Values" || n == "(textproto.MIMEHeader).Values" {
				return r(x.Call.Args[0]) + "[call:http.CanonicalHeaderKey(" + r(x.Call.Args[1]) + ")]"
			}
		}
		return callString(&x.Call, r)
	case *ssa.Extract:
		if c, ok := x.Tuple.(*ssa.Call); ok {
			if t, ok := inlineHelper(c, x.Index); ok {
				return t
			}
		}
		base := r(x.Tuple)
		switch t := x.Tuple.(type) {
		case *ssa.TypeAssert:
			if x.Index == 1 {
				return "ok:" + base
			}
			return base
		case *ssa.Lookup:
			if x.Index == 1 {
				return "ok:" + base
			}
			return base
		case *ssa.Next:
			if t.IsString {
				return base + fmt.Sprintf("#%d", x.Index)
			}
			switch x.Index {
			case 0:
				return "ok:" + base
			case 1:
				return "rangekey(" + base + ")"
			default:
				return "rangeval(" + base + ")"
			}
		case *ssa.UnOp:
			if x.Index == 1 {
				return "ok:" + base
			}
			return base
		}
		return base + fmt.Sprintf("#%d", x.Index)
	case *ssa.Next:
		return r(x.Iter)
	case *ssa.Range:
		return r(x.X)
	case *ssa.Convert:
		return "conv(" + r(x.X) + ")"
	case *ssa.ChangeType:
		return r(x.X)
	case *ssa.ChangeInterface:
		return r(x.X)
	case *ssa.MakeInterface:
		return r(x.X)
	case *ssa.SliceToArrayPointer:
		return r(x.X)
	case *ssa.TypeAssert:
		return "assert:" + typeName(x.AssertedType) + "(" + r(x.X) + ")"
	case *ssa.MakeSlice:
		return "make(" + typeName(x.Type()) + "," + r(x.Len) + ")"
	case *ssa.MakeMap:
		return "makemap(" + typeName(x.Type()) + ")"
	case *ssa.MakeClosure:
		if fn, ok := x.Fn.(*ssa.Function); ok {
			return "closure:" + FuncString(fn)
		}
		return "closure"
	case *ssa.MakeChan:
		return "makechan"
	}
	return fmt.Sprintf("?%T", v)
}

func idx(v ssa.Value, r func(ssa.Value) string) string {
	if c, ok := v.(*ssa.Const); ok {
		return constString(c)
	}
	// a data-dependent index is part of the provenance (authorities[vs.Authority]);
	// loop counters are not
	s := r(v)
	if strings.Contains(s, "↺") || strings.Contains(s, "phi(") || strings.Contains(s, "const:-1") || len(s) > 80 {
		return "_"
	}
	return s
}

func callString(c *ssa.CallCommon, r func(ssa.Value) string) string {
	name := CalleeName(c)
	var args []string
	if c.IsInvoke() {
		args = append(args, r(c.Value))
	}
	for _, a := range c.Args {
		args = append(args, r(a))
	}
	if strings.HasPrefix(name, "builtin:") {
		return strings.TrimPrefix(name, "builtin:") + "(" + strings.Join(args, ",") + ")"
	}
	if strings.HasPrefix(name, "dyn:") {
		return "dyn:" + r(c.Value) + "(" + strings.Join(args, ",") + ")"
	}
	if c.IsInvoke() {
		return name + "(" + strings.Join(args, ",") + ")"
	}
	return "call:" + name + "(" + strings.Join(args, ",") + ")"
}

func deref(t types.Type) types.Type {
	if p, ok := t.Underlying().(*types.Pointer); ok {
		return p.Elem()
	}
	return t
}

// Match reports whether term matches pattern.  '*' in the pattern matches any
// (possibly empty) substring; everything else is literal.  Alternatives are
// separated by " || ".
func Match(pattern, term string) bool {
	// " || " separates alternative patterns (equivalent idioms)
	if strings.Contains(pattern, " || ") {
		for _, alt := range strings.Split(pattern, " || ") {
			if Match(alt, term) {
				return true
			}
		}
		return false
	}
	// "{a|b}" inside a pattern stands for either a or b
	if i := strings.IndexByte(pattern, '{'); i >= 0 {
		depth, j := 0, -1
		for k := i; k < len(pattern); k++ {
			if pattern[k] == '{' {
				depth++
			} else if pattern[k] == '}' {
				depth--
				if depth == 0 {
					j = k
					break
				}
			}
		}
		if j > i {
			// split the group at top-level '|'
			var alts []string
			d, start := 0, i+1
			for k := i + 1; k < j; k++ {
				switch pattern[k] {
				case '{', '(':
					d++
				case '}', ')':
					d--
				case '|':
					if d == 0 {
						alts = append(alts, pattern[start:k])
						start = k + 1
					}
				}
			}
			alts = append(alts, pattern[start:j])
			for _, a := range alts {
				if Match(pattern[:i]+a+pattern[j+1:], term) {
					return true
				}
			}
			return false
		}
	}
	if !strings.Contains(pattern, "*") {
		return pattern == term
	}
	parts := strings.Split(pattern, "*")
	if !strings.HasPrefix(term, parts[0]) {
		return false
	}
	term = term[len(parts[0]):]
	for i := 1; i < len(parts)-1; i++ {
		j := strings.Index(term, parts[i])
		if j < 0 {
			return false
		}
		term = term[j+len(parts[i]):]
	}
	return strings.HasSuffix(term, parts[len(parts)-1])
}

// allocName names an allocation that is not a simple spilled value: a named
// local ("local:buf") or an anonymous literal ("alloc:TYPE").
func allocName(x *ssa.Alloc) string {
	c := x.Comment
	switch c {
	case "", "complit", "varargs", "new", "slicelit", "makeslice":
		return "alloc:" + typeName(deref(x.Type()))
	}
	return "local:" + CanonLocal(x.Parent(), c)
}

// LoopStart: the first index of the hand-written index loop whose counter is
// p (0 for a range loop).
func LoopStart(p *ssa.Phi) int64 {
	for _, e := range p.Edges {
		if k, ok := e.(*ssa.Const); ok && k.Value != nil && k.Value.Kind() == constant.Int {
			if n, ok := constant.Int64Val(k.Value); ok {
				return n
			}
		}
	}
	return 0
}

// isIndexLoopVar: p is the counter of "for i := k; i < len(x); i++" (k >= 0; the
// rules that need every element check LoopStart): a phi of
// the constant k and of itself plus 1, compared "< len(...)" by the branch
// that ends its block.
func isIndexLoopVar(p *ssa.Phi) bool {
	if len(p.Edges) != 2 {
		return false
	}
	zero, step := false, false
	for _, e := range p.Edges {
		switch x := e.(type) {
		case *ssa.Const:
			if x.Value != nil && x.Value.Kind() == constant.Int && constant.Sign(x.Value) >= 0 {
				zero = true
			}
		case *ssa.BinOp:
			if k, ok := x.Y.(*ssa.Const); ok && x.Op == token.ADD && x.X == p && k.Value != nil && k.Value.Kind() == constant.Int && k.Value.ExactString() == "1" {
				step = true
			}
		}
	}
	if !zero || !step {
		return false
	}
	b := p.Block()
	ifi, ok := b.Instrs[len(b.Instrs)-1].(*ssa.If)
	if !ok {
		return false
	}
	c, ok := ifi.Cond.(*ssa.BinOp)
	if !ok || c.Op != token.LSS || c.X != p {
		return false
	}
	if call, ok := c.Y.(*ssa.Call); ok {
		if bi, ok := call.Call.Value.(*ssa.Builtin); ok && bi.Name() == "len" {
			return true
		}
	}
	return false
}

// ModulePrefix is the import-path prefix of the analysed module (set by the loader).
var ModulePrefix = "github.com/WICG/webpackage"

// inlineHelper: a call to a module function that the rule tables do not know
// (an expression extracted into a new helper) and that has a single return
// renders as that return's result, with the helper's parameters standing for
// the arguments of the call.
func inlineHelper(c *ssa.Call, idx int) (string, bool) {
	fn := c.Call.StaticCallee()
	if fn == nil || fn.Blocks == nil || fn.Pkg == nil || !strings.HasPrefix(fn.Pkg.Pkg.Path(), ModulePrefix) {
		return "", false
	}
	if SubstDepth() > 3 || len(c.Call.Args) != len(fn.Params) || KnownFunction(fn) {
		return "", false
	}
	var rets []*ssa.Return
	for _, b := range fn.Blocks {
		if r, ok := b.Instrs[len(b.Instrs)-1].(*ssa.Return); ok {
			rets = append(rets, r)
		}
	}
	var ret *ssa.Return
	if len(rets) == 1 {
		ret = rets[0]
	} else {
		// (T..., error) helpers: the value results are those of the one return
		// whose error is nil; the other returns are failures, after which
		// callers do not use the values
		res := fn.Signature.Results()
		n := res.Len()
		if n >= 2 && idx == n-1 && res.At(n-1).Type().String() == "error" {
			// the error result: when every failing return hands on the error of
			// one and the same call, the helper's error is that call's error
			var src *ssa.Extract
			for _, r := range rets {
				if k, ok := r.Results[n-1].(*ssa.Const); ok && k.Value == nil {
					continue
				}
				ex, ok := r.Results[n-1].(*ssa.Extract)
				if !ok || (src != nil && src != ex) {
					return "", false
				}
				src = ex
			}
			if src == nil {
				return "", false
			}
			PushSubst(fn, &c.Call)
			defer PopSubst()
			return Of(src), true
		}
		if n < 2 || idx == n-1 || res.At(n-1).Type().String() != "error" {
			return "", false
		}
		for _, r := range rets {
			if k, ok := r.Results[n-1].(*ssa.Const); ok && k.Value == nil {
				if ret != nil {
					return "", false
				}
				ret = r
			} else if ex, ok := r.Results[n-1].(*ssa.Extract); ok && ex.Referrers() != nil && len(*ex.Referrers()) == 1 {
				// return f(...): the error of the last call is handed on untested,
				// so this return is also the one taken when everything succeeded
				if _, isCall := ex.Tuple.(*ssa.Call); isCall {
					if ret != nil {
						return "", false
					}
					ret = r
				}
			}
		}
	}
	if ret == nil || idx >= len(ret.Results) {
		return "", false
	}
	PushSubst(fn, &c.Call)
	defer PopSubst()
	return Of(ret.Results[idx]), true
}

// readArray: x is a local [N]byte array whose only writer is one
// io.ReadFull(R, x[:]): renders "readN(R)".
func readArray(x *ssa.Alloc, r func(ssa.Value) string) (string, bool) {
	at, ok := deref(x.Type()).Underlying().(*types.Array)
	if !ok || x.Referrers() == nil {
		return "", false
	}
	if b, ok := at.Elem().Underlying().(*types.Basic); !ok || b.Kind() != types.Uint8 {
		return "", false
	}
	if at.Len() != 2 && at.Len() != 4 && at.Len() != 8 {
		return "", false
	}
	found := ""
	for _, ref := range *x.Referrers() {
		switch y := ref.(type) {
		case *ssa.Slice:
			if y.Referrers() == nil {
				continue
			}
			for _, rr := range *y.Referrers() {
				c, ok := rr.(*ssa.Call)
				if !ok {
					continue
				}
				name := calleeName(&c.Call)
				switch {
				case name == "io.ReadFull" && len(c.Call.Args) == 2 && c.Call.Args[1] == ssa.Value(y):
					if found != "" {
						return "", false
					}
					found = fmt.Sprintf("read%d(%s)", at.Len(), r(c.Call.Args[0]))
				case strings.HasPrefix(name, "(binary.bigEndian).Uint"):
				default:
					return "", false
				}
			}
		case *ssa.Store:
			return "", false
		case *ssa.IndexAddr:
			if y.Referrers() != nil {
				for _, rr := range *y.Referrers() {
					if st, ok := rr.(*ssa.Store); ok && st.Addr == ssa.Value(y) {
						return "", false
					}
				}
			}
		case *ssa.DebugRef:
		default:
			return "", false
		}
	}
	return found, found != ""
}

// bigEndianArray: x is a [2|4|8]byte array whose only writer is
// binary.BigEndian.PutUintN(x[:], v): renders "beN(v)" with N the byte width.
func bigEndianArray(x *ssa.Alloc, r func(ssa.Value) string) (string, bool) {
	at, ok := deref(x.Type()).Underlying().(*types.Array)
	if !ok {
		return "", false
	}
	if b, ok := at.Elem().Underlying().(*types.Basic); !ok || b.Kind() != types.Uint8 {
		return "", false
	}
	found := ""
	for _, ref := range *x.Referrers() {
		switch y := ref.(type) {
		case *ssa.Slice:
			for _, rr := range *y.Referrers() {
				c, ok := rr.(*ssa.Call)
				if !ok || len(c.Call.Args) != 3 || c.Call.Args[1] != ssa.Value(y) {
					continue
				}
				name := calleeName(&c.Call)
				w := map[string]string{"(binary.bigEndian).PutUint16": "2", "(binary.bigEndian).PutUint32": "4", "(binary.bigEndian).PutUint64": "8"}[name]
				if w == "" {
					continue
				}
				if found != "" {
					return "", false
				}
				found = "be" + w + "(" + r(c.Call.Args[2]) + ")"
			}
		case *ssa.Store:
			if y.Addr == ssa.Value(x) {
				return "", false
			}
		case *ssa.IndexAddr:
			for _, rr := range *y.Referrers() {
				if st, ok := rr.(*ssa.Store); ok && st.Addr == ssa.Value(y) {
					return "", false // also written element-wise
				}
			}
		}
	}
	return found, found != ""
}

// closureBinding: the value the enclosing function binds to free variable fv
// when it creates the closure, if that function's parameters are currently
// substituted.
func closureBinding(fv *ssa.FreeVar) ssa.Value {
	cl := fv.Parent()
	outer := cl.Parent()
	if cl == nil || outer == nil || len(substStack) == 0 {
		return nil
	}
	top := substStack[len(substStack)-1]
	owned := false
	for _, p := range outer.Params {
		if _, ok := top[p]; ok {
			owned = true
		}
	}
	if !owned {
		return nil
	}
	idx := -1
	for i, f := range cl.FreeVars {
		if f == fv {
			idx = i
		}
	}
	if idx < 0 {
		return nil
	}
	for _, b := range outer.Blocks {
		for _, in := range b.Instrs {
			if mc, ok := in.(*ssa.MakeClosure); ok && mc.Fn == ssa.Value(cl) && idx < len(mc.Bindings) {
				return mc.Bindings[idx]
			}
		}
	}
	return nil
}

// anyClosureBinding: the value bound to fv where its closure is created.
func anyClosureBinding(fv *ssa.FreeVar) ssa.Value {
	cl := fv.Parent()
	if cl == nil || cl.Parent() == nil {
		return nil
	}
	idx := -1
	for i, f := range cl.FreeVars {
		if f == fv {
			idx = i
		}
	}
	if idx < 0 {
		return nil
	}
	for _, b := range cl.Parent().Blocks {
		for _, in := range b.Instrs {
			if mc, ok := in.(*ssa.MakeClosure); ok && mc.Fn == ssa.Value(cl) && idx < len(mc.Bindings) {
				return mc.Bindings[idx]
			}
		}
	}
	return nil
}
