package props

import (
	"fmt"
	"go/token"
	"strings"

	"golang.org/x/tools/go/ssa"

	"wpverif/internal/gate"
	"wpverif/internal/load"
	"wpverif/internal/prov"
)

// gcfg is one configuration (specialised CFG) a requirement is evaluated in.
type gcfg struct {
	name   string
	assume []gate.Assumption
}

var noCfg = gcfg{}

func sxgVersion(v string) gcfg {
	return gcfg{name: "version=" + v, assume: []gate.Assumption{{TypeName: "signedexchange/version.Version", Value: fmt.Sprintf("%q", v)}}}
}

func bundleVersion(v string) gcfg {
	return gcfg{name: "bundle=" + v, assume: []gate.Assumption{{TypeName: "bundle/version.Version", Value: fmt.Sprintf("%q", v)}}}
}

var sxgVersions = []string{"1b1", "1b2", "1b3"}

// requireGates: every gate must be established on every path of fn from entry
// to an exit with outcome o, in configuration cfg.
func (e *Env) requireGates(rule string, fn *ssa.Function, o gate.Outcome, cfg gcfg, gates ...gate.Gate) {
	if fn == nil {
		return
	}
	ctx := gate.New(e.P, e.P.VTA(), cfg.assume...)
	name := load.FuncName(fn)
	if !ctx.SuccessReachable(fn, o) {
		ob := e.R.Undecided(rule, name+":REACH", e.P.Pos(fn.Pos()),
			"no exit with outcome "+o.String()+" is reachable in this configuration: every gate would hold vacuously")
		ob.Config = cfg.name
		return
	}
	for _, g := range gates {
		ok, w := ctx.Established(fn, o, g)
		var ob = e.R.OK
		_ = ob
		if ok {
			x := e.R.OK(rule, name+":"+g.Key, e.P.Pos(fn.Pos()), "every path to "+o.String()+" passes "+g.Desc)
			x.Config = cfg.name
		} else {
			x := e.R.Fail(rule, name+":"+g.Key, e.P.Pos(fn.Pos()),
				"a path from the entry of "+name+" reaches "+o.String()+" without passing the gate "+g.Desc, w...)
			x.Config = cfg.name
		}
	}
	e.R.Counts["cfg_edges_examined"] += ctx.Steps
}

// requireResult: on every return of fn that may have outcome o, result idx has
// provenance matching pattern.
func (e *Env) requireResult(rule string, fn *ssa.Function, o gate.Outcome, idx int, pattern, what string) {
	if fn == nil {
		return
	}
	ctx := gate.New(e.P, e.P.VTA())
	name := load.FuncName(fn)
	rets := ctx.SuccessReturns(fn, o)
	if len(rets) == 0 {
		e.R.Undecided(rule, name+":result#"+fmt.Sprint(idx), e.P.Pos(fn.Pos()), "no return with outcome "+o.String())
		return
	}
	for i, r := range rets {
		key := fmt.Sprintf("%s:result#%d@%d", name, idx, i+1)
		if idx >= len(r.Results) {
			e.R.Undecided(rule, key, e.P.InstrPos(r), "result index out of range")
			continue
		}
		t := prov.Of(r.Results[idx])
		if prov.Match(pattern, t) {
			e.R.OK(rule, key, e.P.InstrPos(r), what+": "+short(t))
		} else if strings.HasPrefix(pattern, "call:(*bytes.Buffer).Bytes(local:") && gate.LocalByteAcc(r.Results[idx]) && isAppend(r.Results[idx]) {
			e.R.OK(rule, key, e.P.InstrPos(r), what+": the locally appended byte slice (instead of a local buffer's Bytes())")
		} else {
			e.R.Fail(rule, key, e.P.InstrPos(r), "value returned on success is not "+what, "got  "+t, "want "+pattern)
		}
	}
}

func isAppend(v ssa.Value) bool {
	c, ok := v.(*ssa.Call)
	if !ok {
		return false
	}
	b, ok := c.Call.Value.(*ssa.Builtin)
	return ok && b.Name() == "append"
}

// requireStore: fn stores to an address matching addrPat, and every such
// store stores a value matching valPat.
func (e *Env) requireStore(rule string, fn *ssa.Function, addrPat, valPat, what string) {
	if fn == nil {
		return
	}
	name := load.FuncName(fn)
	n := 0
	type unit struct {
		f    *ssa.Function
		call *ssa.Call
	}
	units := []unit{{fn, nil}}
	for _, c := range unknownHelperCalls(e, fn) {
		units = append(units, unit{c.Call.StaticCallee(), c})
	}
	for _, u := range units {
		if u.call != nil {
			prov.PushSubst(u.f, &u.call.Call)
		}
		for _, b := range u.f.Blocks {
			for _, in := range b.Instrs {
				st, ok := in.(*ssa.Store)
				if !ok || !prov.Match(addrPat, prov.Of(st.Addr)) {
					continue
				}
				n++
				key := fmt.Sprintf("%s:store(%s)#%d", name, addrPat, n)
				v := prov.Of(st.Val)
				if prov.Match(valPat, v) {
					e.R.OK(rule, key, e.P.InstrPos(in), what)
				} else {
					e.R.Fail(rule, key, e.P.InstrPos(in), "stored value is not "+what, "got  "+v, "want "+valPat)
				}
			}
		}
		if u.call != nil {
			prov.PopSubst()
		}
	}
	if n == 0 {
		e.R.Fail(rule, name+":store("+addrPat+")", e.P.Pos(fn.Pos()), "no store to "+addrPat+" found ("+what+")")
	}
}

func short(s string) string {
	if len(s) > 160 {
		return s[:157] + "..."
	}
	return s
}

// collects: the instruction keeps the element of this iteration: an
// append(xs, elem) whose element array mentions typeSub, or a store
// xs[i] = elem into a slice made with one slot per element of the ranged
// collection (make(T, len(...))) at the loop's own index.
func collects(typeSub string) func(ssa.Instruction) bool {
	return func(in ssa.Instruction) bool {
		switch x := in.(type) {
		case *ssa.Call:
			return prov.CalleeName(&x.Call) == "builtin:append" && len(x.Call.Args) == 2 && strings.Contains(prov.Of(x.Call.Args[1]), typeSub)
		case *ssa.Store:
			ia, ok := x.Addr.(*ssa.IndexAddr)
			if !ok || !strings.Contains(x.Val.Type().String(), typeSub) {
				return false
			}
			return prov.Of(ia.Index) == "rangeidx" && prov.Match("make(*,len(*))", prov.Of(ia.X))
		}
		return false
	}
}

func either(key, desc string, gs ...gate.Gate) gate.Gate { return gate.Any(key, desc, gs...) }

var _ = strings.Contains

// loopsOver finds the range loops of fn over a value whose provenance matches
// overPat: returns (header block, body entry block) pairs.
func loopsOver(fn *ssa.Function, overPat string) [][2]*ssa.BasicBlock {
	var out [][2]*ssa.BasicBlock
	for _, b := range fn.Blocks {
		ifi, ok := b.Instrs[len(b.Instrs)-1].(*ssa.If)
		if !ok {
			continue
		}
		switch c := ifi.Cond.(type) {
		case *ssa.Extract:
			// map/string range: ok component of Next
			if nx, ok := c.Tuple.(*ssa.Next); ok && c.Index == 0 {
				if rg, ok := nx.Iter.(*ssa.Range); ok && prov.Match(overPat, prov.Of(rg.X)) {
					out = append(out, [2]*ssa.BasicBlock{b, b.Succs[0]})
				}
			}
		case *ssa.BinOp:
			// slice range: idx < len(X)
			if c.Op.String() == "<" && prov.Match("len("+overPat+")", prov.Of(c.Y)) {
				out = append(out, [2]*ssa.BasicBlock{b, b.Succs[0]})
			}
		}
	}
	return out
}

// forAllIterations: in every range loop of fn over overPat, every path from
// the start of an iteration back to the loop header, or to a successful return,
// passes gate g ("no skip path").
func forAllIterations(e *Env, rule string, fn *ssa.Function, overPat string, cfg gcfg, g gate.Gate) {
	forAllIterationsFrom(e, rule, fn, overPat, cfg, g, 0)
}

// forAllIterationsFrom is forAllIterations for a requirement on the elements
// from index maxStart on: a hand-written index loop may begin at any index up
// to maxStart (for i := 1; ...), not later.
func forAllIterationsFrom(e *Env, rule string, fn *ssa.Function, overPat string, cfg gcfg, g gate.Gate, maxStart int64) {
	if fn == nil {
		return
	}
	name := load.FuncName(fn)
	loops := loopsOver(fn, overPat)
	if len(loops) == 0 {
		// the loop moved into a new helper: the same requirement there, with the
		// helper's parameters standing for the arguments of the call
		for _, c := range unknownHelperCalls(e, fn) {
			h := c.Call.StaticCallee()
			prov.PushSubst(h, &c.Call)
			found := len(loopsOver(h, overPat)) > 0
			if found {
				forAllIterationsFrom(e, rule, h, overPat, cfg, g, maxStart)
			}
			prov.PopSubst()
			if found {
				return
			}
		}
		e.R.Undecided(rule, name+":forall("+overPat+"):"+g.Key, e.P.Pos(fn.Pos()), "no range loop over "+overPat+" found")
		return
	}
	ctx := gate.New(e.P, e.P.VTA(), cfg.assume...)
	for i, l := range loops {
		key := fmt.Sprintf("%s:forall(%s)#%d:%s", name, overPat, i+1, g.Key)
		if start := loopStart(l[0]); start > maxStart {
			x := e.R.Fail(rule, key, e.P.Pos(fn.Pos()), fmt.Sprintf("the loop over %s starts at index %d: the elements in front of it are not visited", overPat, start))
			x.Config = cfg.name
			continue
		}
		ok, w := ctx.EstablishedFrom(fn, l[1], gate.DefaultOutcome(fn), g, map[*ssa.BasicBlock]bool{l[0]: true})
		if ok {
			// no early successful exit: the loop may be left from inside the body
			// only towards failing exits, otherwise later elements go unchecked
			if early := earlyExit(ctx, fn, l[0], l[1]); early != "" {
				x := e.R.Fail(rule, key, e.P.Pos(fn.Pos()), "the loop over "+overPat+" can be left before all elements were visited and still succeed: "+early)
				x.Config = cfg.name
				continue
			}
			x := e.R.OK(rule, key, e.P.Pos(fn.Pos()), "every iteration passes "+g.Desc+"; the loop is left only at its header or towards failure")
			x.Config = cfg.name
		} else {
			x := e.R.Fail(rule, key, e.P.Pos(fn.Pos()), "an iteration of the loop over "+overPat+" can finish without "+g.Desc, w...)
			x.Config = cfg.name
		}
	}
}

// earlyExit: the iteration region (blocks dominated by the body entry) is left
// towards a block other than the loop header from which a successful return is
// reachable, or contains a successful return.
func earlyExit(ctx *gate.Ctx, fn *ssa.Function, h, bodyEntry *ssa.BasicBlock) string {
	body := map[*ssa.BasicBlock]bool{}
	for _, b := range fn.Blocks {
		if bodyEntry.Dominates(b) {
			body[b] = true
		}
	}
	o := gate.DefaultOutcome(fn)
	for _, b := range fn.Blocks {
		if !body[b] {
			continue
		}
		for _, s := range b.Succs {
			if body[s] || s == h {
				continue
			}
			if ok, _ := ctx.EstablishedFrom(fn, s, o, gate.Never, nil); !ok {
				return fmt.Sprintf("block %d leaves the loop to block %d, from which %s is reachable", b.Index, s.Index, o)
			}
		}
		if r, ok := b.Instrs[len(b.Instrs)-1].(*ssa.Return); ok {
			for _, sr := range ctx.SuccessReturns(fn, o) {
				if sr == r {
					return fmt.Sprintf("block %d returns successfully from inside the loop", b.Index)
				}
			}
		}
	}
	return ""
}

// dominatedByGates: every path from the entry of fn to a call matching
// calleePat (with argument patterns) passes each gate.
func (e *Env) dominatedByGates(rule string, fn *ssa.Function, cfg gcfg, calleePat string, argPats []string, gates ...gate.Gate) {
	if fn == nil {
		return
	}
	name := load.FuncName(fn)
	stop := map[*ssa.BasicBlock]bool{}
	for _, b := range fn.Blocks {
		for _, in := range b.Instrs {
			// (callMatches knows the equivalent spellings of a call)
			isSite := gate.CallInstr("", calleePat, argPats...).Instr
			if isSite(in) || instrInHelper(e, in, isSite, 0) {
				stop[b] = true
			}
		}
	}
	if len(stop) == 0 {
		e.R.Fail(rule, name+":site("+calleePat+")", e.P.Pos(fn.Pos()), "no call to "+calleePat+" with arguments ("+strings.Join(argPats, ", ")+") found")
		return
	}
	ctx := gate.New(e.P, e.P.VTA(), cfg.assume...)
	for _, g := range gates {
		key := name + ":before(" + calleePat + "):" + g.Key
		// exits are irrelevant: ask for an outcome no return can have
		_, w := ctx.EstablishedFrom(fn, fn.Blocks[0], gate.Outcome{Kind: gate.NoExit}, g, stop)
		reached := false
		for _, line := range w {
			if strings.HasPrefix(line, "reaches block") {
				reached = true
			}
		}
		if stop[fn.Blocks[0]] {
			reached = true // the call sits in the entry block: nothing can precede it on an edge
			w = []string{"the call is in the entry block of " + name}
		}
		// the gate may be established inside the stop block itself, before the call: not accepted (fail closed)
		if !reached {
			x := e.R.OK(rule, key, e.P.Pos(fn.Pos()), "every path to the call passes "+g.Desc)
			x.Config = cfg.name
		} else {
			x := e.R.Fail(rule, key, e.P.Pos(fn.Pos()), "the call to "+calleePat+" is reachable without passing "+g.Desc, w...)
			x.Config = cfg.name
		}
	}
}

// callOrder: in fn, a call matching first (callee + args) executes before a
// call matching second on every path reaching the latter.
func (e *Env) callOrder(rule, key string, fn *ssa.Function, first, second gate.Gate, what string) {
	if fn == nil {
		return
	}
	var a, b ssa.Instruction
	for _, blk := range fn.Blocks {
		for _, in := range blk.Instrs {
			if (first.Instr(in) || helperContains(e, in, first, 0)) && a == nil {
				a = in
			}
			if (second.Instr(in) || helperContains(e, in, second, 0)) && b == nil {
				b = in
			}
		}
	}
	k := load.FuncName(fn) + ":" + key
	if a != nil && a == b {
		// both steps live in one helper the rule tables do not know: decided there
		if helperOrder(e, a, first, second) {
			e.R.OK(rule, k, e.P.InstrPos(a), what+" (inside the helper called here)")
		} else {
			e.R.Fail(rule, k, e.P.InstrPos(a), "order violated inside the helper called here: "+what)
		}
		return
	}
	if a == nil || b == nil {
		e.R.Fail(rule, k, e.P.Pos(fn.Pos()), "cannot find both calls ("+first.Desc+" / "+second.Desc+")")
		return
	}
	if before(a, b) {
		e.R.OK(rule, k, e.P.InstrPos(b), what)
	} else {
		e.R.Fail(rule, k, e.P.InstrPos(b), "order violated: "+what)
	}
}

// dominatedBy: some branch edge that dominates block b carries a fact accepted
// by pred (the edge's target has a single predecessor and dominates b).
func dominatedBy(b *ssa.BasicBlock, pred func(gate.Fact) bool) bool {
	for d := b; d != nil; d = d.Idom() {
		p := d.Idom()
		if p == nil {
			break
		}
		ifi, ok := p.Instrs[len(p.Instrs)-1].(*ssa.If)
		if !ok {
			continue
		}
		for i, s := range p.Succs {
			if s != d || len(s.Preds) != 1 {
				continue
			}
			for _, f := range gate.EdgeFacts(ifi.Cond, i == 0) {
				if pred(f) {
					return true
				}
			}
		}
	}
	return false
}

// forAllIterationsAt is forAllIterations for one given loop (header, body).
func forAllIterationsAt(e *Env, rule string, fn *ssa.Function, l [2]*ssa.BasicBlock, label string, cfg gcfg, g gate.Gate) {
	name := load.FuncName(fn)
	ctx := gate.New(e.P, e.P.VTA(), cfg.assume...)
	key := fmt.Sprintf("%s:forall(%s):%s", name, label, g.Key)
	if start := loopStart(l[0]); start > 0 && isLenLoop(l[0]) {
		x := e.R.Fail(rule, key, e.P.Pos(fn.Pos()), fmt.Sprintf("the %s starts at index %d: the elements in front of it are not visited", label, start))
		x.Config = cfg.name
		return
	}
	ok, w := ctx.EstablishedFrom(fn, l[1], gate.DefaultOutcome(fn), g, map[*ssa.BasicBlock]bool{l[0]: true})
	if !ok {
		x := e.R.Fail(rule, key, e.P.Pos(fn.Pos()), "an iteration of the "+label+" can finish without "+g.Desc, w...)
		x.Config = cfg.name
		return
	}
	if early := earlyExit(ctx, fn, l[0], l[1]); early != "" {
		x := e.R.Fail(rule, key, e.P.Pos(fn.Pos()), "the "+label+" can be left before all elements were visited and still succeed: "+early)
		x.Config = cfg.name
		return
	}
	x := e.R.OK(rule, key, e.P.Pos(fn.Pos()), "every iteration passes "+g.Desc+"; the loop is left only at its header or towards failure")
	x.Config = cfg.name
}

// countedLoop: the loop `for i := c; i < bound; i++` whose bound matches
// boundPat: every iteration passes each gate, no early successful exit.
func countedLoop(e *Env, rule string, fn *ssa.Function, boundPat string, gates ...gate.Gate) {
	if fn == nil {
		return
	}
	name := load.FuncName(fn)
	var loops [][2]*ssa.BasicBlock
	for _, b := range fn.Blocks {
		ifi, ok := b.Instrs[len(b.Instrs)-1].(*ssa.If)
		if !ok {
			continue
		}
		c, ok := ifi.Cond.(*ssa.BinOp)
		if !ok {
			continue
		}
		ph, isPhi := c.X.(*ssa.Phi)
		if !isPhi {
			continue
		}
		if c.Op.String() == "<" && prov.Match(boundPat, prov.Of(c.Y)) {
			loops = append(loops, [2]*ssa.BasicBlock{b, b.Succs[0]})
			continue
		}
		// the same number of iterations counted down: for r := bound - k; r > 0; r--
		if _, yc := c.Y.(*ssa.Const); yc && (c.Op.String() == ">" || c.Op.String() == ">=") && len(ph.Edges) == 2 {
			for _, ed := range ph.Edges {
				if bo, ok := ed.(*ssa.BinOp); ok && bo.X == ssa.Value(ph) {
					continue // the decrement
				}
				t := prov.Of(ed)
				if prov.Match(boundPat, t) || prov.Match("("+boundPat+" - const:*)", t) {
					loops = append(loops, [2]*ssa.BasicBlock{b, b.Succs[0]})
				}
			}
		}
	}
	if len(loops) == 0 {
		e.R.Undecided(rule, name+":counted("+boundPat+")", e.P.Pos(fn.Pos()), "no counted loop bounded by "+boundPat+" found")
		return
	}
	for i, l := range loops {
		for _, g := range gates {
			forAllIterationsAt(e, rule, fn, l, fmt.Sprintf("counted-loop#%d", i+1), noCfg, g)
		}
	}
}

// afterStore: for every store to an address matching addrPat (in fn, or in a
// helper the rule tables do not know, its parameters standing for the call's
// arguments), every path from the store to an exit with outcome o passes each
// gate, or every path from the function's entry to the store already passed
// it (the value was checked before it was stored).
func (e *Env) afterStore(rule string, fn *ssa.Function, addrPat string, o gate.Outcome, gates ...gate.Gate) {
	if fn == nil {
		return
	}
	name := load.FuncName(fn)
	n := 0
	type unit struct {
		f    *ssa.Function
		call *ssa.Call
		o    gate.Outcome
	}
	units := []unit{{fn, nil, o}}
	for _, c := range unknownHelperCalls(e, fn) {
		h := c.Call.StaticCallee()
		ho := gate.Outcome{Kind: gate.AnyReturn}
		if res := h.Signature.Results(); res.Len() > 0 && res.At(res.Len()-1).Type().String() == "error" {
			ho = gate.Outcome{Kind: gate.ErrNil, Idx: res.Len() - 1}
		}
		units = append(units, unit{h, c, ho})
	}
	for _, u := range units {
		if u.call != nil {
			prov.PushSubst(u.f, &u.call.Call)
		}
		ctx := gate.New(e.P, e.P.VTA())
		for _, b := range u.f.Blocks {
			for _, in := range b.Instrs {
				st, ok := in.(*ssa.Store)
				if !ok || !prov.Match(addrPat, prov.Of(st.Addr)) {
					continue
				}
				n++
				for _, g := range gates {
					key := fmt.Sprintf("%s:after-store(%s)#%d:%s", name, addrPat, n, g.Key)
					ok, w := ctx.EstablishedFrom(u.f, b, u.o, g, nil)
					if ok {
						e.R.OK(rule, key, e.P.InstrPos(in), "after the store every path to "+u.o.String()+" passes "+g.Desc)
						continue
					}
					// checked before it was stored?
					_, w2 := ctx.EstablishedFrom(u.f, u.f.Blocks[0], gate.Outcome{Kind: gate.NoExit}, g, map[*ssa.BasicBlock]bool{b: true})
					reached := b == u.f.Blocks[0]
					for _, line := range w2 {
						if strings.HasPrefix(line, "reaches block") {
							reached = true
						}
					}
					if !reached {
						e.R.OK(rule, key, e.P.InstrPos(in), "every path to the store has passed "+g.Desc)
					} else {
						e.R.Fail(rule, key, e.P.InstrPos(in), "after the store a path reaches "+u.o.String()+" without "+g.Desc, w...)
					}
				}
			}
		}
		if u.call != nil {
			prov.PopSubst()
		}
	}
	if n == 0 {
		e.R.Fail(rule, name+":after-store("+addrPat+")", e.P.Pos(fn.Pos()), "no store to "+addrPat)
	}
}

// gatesBefore: every path from the entry of fn to an instruction accepted by
// match passes each gate.  label names the instruction class in the key.
func (e *Env) gatesBefore(rule string, fn *ssa.Function, cfg gcfg, label string, match func(ssa.Instruction) bool, gates ...gate.Gate) int {
	if fn == nil {
		return 0
	}
	name := load.FuncName(fn)
	n := 0
	for _, b := range fn.Blocks {
		for _, in := range b.Instrs {
			// the instruction itself, or a call to a new helper that contains it: the
			// gates are then required in front of that call
			direct := match(in)
			if !direct && !instrInHelper(e, in, match, 0) {
				continue
			}
			n++
			stop := map[*ssa.BasicBlock]bool{b: true}
			ctx := gate.New(e.P, e.P.VTA(), cfg.assume...)
			for _, g := range gates {
				key := fmt.Sprintf("%s:before(%s#%d):%s", name, label, n, g.Key)
				// the instruction sits in a helper the rule tables do not know: the
				// gate may be passed inside that helper, in front of the instruction
				if !direct && gateBeforeInHelper(e, in.(*ssa.Call), cfg, match, g) {
					x := e.R.OK(rule, key, e.P.InstrPos(in), "inside the helper called here every path to the instruction passes "+g.Desc)
					x.Config = cfg.name
					continue
				}
				_, w := ctx.EstablishedFrom(fn, fn.Blocks[0], gate.Outcome{Kind: gate.NoExit}, g, stop)
				reached := b == fn.Blocks[0]
				for _, line := range w {
					if strings.HasPrefix(line, "reaches block") {
						reached = true
					}
				}
				if !reached {
					x := e.R.OK(rule, key, e.P.InstrPos(in), "every path to this instruction passes "+g.Desc)
					x.Config = cfg.name
				} else {
					x := e.R.Fail(rule, key, e.P.InstrPos(in), "the instruction is reachable without passing "+g.Desc, w...)
					x.Config = cfg.name
				}
			}
		}
	}
	return n
}

// step is one element of a required emission sequence.
type step struct {
	name string
	g    gate.Gate // Instr matcher
}

// sequenceOrder: under cfg, the instructions matching consecutive steps occur
// in that order on every path: step i+1 is reachable from step i and never the
// other way round.  Presence of each step on all paths is a separate
// must-pass obligation (requireGates).
func (e *Env) sequenceOrder(rule string, fn *ssa.Function, cfg gcfg, label string, steps []step) {
	if fn == nil {
		return
	}
	ctx := gate.New(e.P, e.P.VTA(), cfg.assume...)
	reach := map[*ssa.BasicBlock]bool{}
	for _, b := range ctx.ReachableBlocks(fn) {
		reach[b] = true
	}
	sites := make([][]ssa.Instruction, len(steps))
	for i, st := range steps {
		for _, b := range fn.Blocks {
			if !reach[b] {
				continue
			}
			for _, in := range b.Instrs {
				if st.g.Instr != nil && (st.g.Instr(in) || helperContains(e, in, st.g, 0)) {
					sites[i] = append(sites[i], in)
				}
			}
		}
	}
	name := load.FuncName(fn)
	for i := 0; i+1 < len(steps); i++ {
		key := fmt.Sprintf("%s:%s:%s<%s", name, label, steps[i].name, steps[i+1].name)
		if len(sites[i]) == 0 || len(sites[i+1]) == 0 {
			x := e.R.Fail(rule, key, e.P.Pos(fn.Pos()), "emission step not found: "+steps[i].name+" / "+steps[i+1].name)
			x.Config = cfg.name
			continue
		}
		ok := true
		for _, a := range sites[i] {
			for _, b := range sites[i+1] {
				if a == b {
					// both steps happen inside one helper call: their order inside the helper
					if !helperOrder(e, a, steps[i].g, steps[i+1].g) {
						ok = false
					}
					continue
				}
				if !ctx.Reaches(a, b) || ctx.Reaches(b, a) {
					ok = false
				}
			}
		}
		if ok {
			x := e.R.OK(rule, key, e.P.InstrPos(sites[i+1][0]), steps[i].name+" is emitted before "+steps[i+1].name+" on every path")
			x.Config = cfg.name
		} else {
			x := e.R.Fail(rule, key, e.P.InstrPos(sites[i+1][0]), "emission order differs from the specification: "+steps[i].name+" must precede "+steps[i+1].name)
			x.Config = cfg.name
		}
	}
}

// rejectionsListed (rule REJECT): every branch of fn that leads only to
// exits other than `success` is the failing side of one of the listed gates.
// An additional rejecting condition is an over-rejection candidate.
func rejectionsListed(e *Env, rule string, fn *ssa.Function, success gate.Outcome, cfg gcfg, gs []gate.Gate, what string) int {
	if fn == nil {
		return 0
	}
	ctx := gate.New(e.P, e.P.VTA(), cfg.assume...)
	n := 0
	for _, r := range ctx.Rejections(fn, success) {
		n++
		var fs []string
		for _, f := range r.Facts {
			fs = append(fs, f.String())
		}
		desc := strings.Join(fs, " ; ")
		if len(desc) > 240 {
			desc = desc[:240] + "..."
		}
		key := fmt.Sprintf("%s:reject#%d", load.FuncName(fn), n)
		pos := e.P.InstrPos(r.Block.Instrs[len(r.Block.Instrs)-1])
		if g, ok := ctx.Listed(r, gs); ok {
			e.R.OK(rule, key, pos, "rejecting branch is the failing side of listed gate "+g).Config = cfg.name
		} else {
			e.R.Fail(rule, key, pos, "a branch rejects on a condition that is not one of the listed ones ("+what+")", "rejects when: "+desc).Config = cfg.name
		}
	}
	return n
}

// bytesEqual: the two byte strings were compared for equality and found equal,
// in any of the equivalent idioms (bytes.Equal, bytes.Compare == 0,
// subtle.ConstantTimeCompare == 1), operands in either order.
func bytesEqual(key, desc, a, b string) gate.Gate {
	var gs []gate.Gate
	for _, ab := range [][2]string{{a, b}, {b, a}} {
		gs = append(gs,
			gate.CallBool("", "bytes.Equal", true, ab[0], ab[1]),
			gate.Cmp("", "call:bytes.Compare("+ab[0]+","+ab[1]+")", token.EQL, "const:0"),
			gate.Cmp("", "call:subtle.ConstantTimeCompare("+ab[0]+","+ab[1]+")", token.EQL, "const:1"))
	}
	return either(key, desc, gs...)
}

// bytesEqualTerm: the provenance alternatives of "a equals b" as a value.
func bytesEqualTerm(a, b string) string {
	var alts []string
	for _, ab := range [][2]string{{a, b}, {b, a}} {
		alts = append(alts, "call:bytes.Equal("+ab[0]+","+ab[1]+")",
			"(call:bytes.Compare("+ab[0]+","+ab[1]+") == const:0)",
			"(call:subtle.ConstantTimeCompare("+ab[0]+","+ab[1]+") == const:1)")
	}
	return strings.Join(alts, " || ")
}

// bytesDiffer: the two byte strings were compared and found different, in any
// of the equivalent idioms, operands in either order.
func bytesDiffer(key, desc, a, b string) gate.Gate {
	var gs []gate.Gate
	for _, ab := range [][2]string{{a, b}, {b, a}} {
		gs = append(gs,
			gate.CallBool("", "bytes.Equal", false, ab[0], ab[1]),
			gate.Cmp("", "call:bytes.Compare("+ab[0]+","+ab[1]+")", token.NEQ, "const:0"),
			gate.Cmp("", "call:subtle.ConstantTimeCompare("+ab[0]+","+ab[1]+")", token.NEQ, "const:1"))
	}
	return either(key, desc, gs...)
}

// errIs: the error value is the sentinel, tested with == or errors.Is.
func errIs(key, errTerm, sentinel string) gate.Gate {
	return either(key, errTerm+" is "+sentinel,
		gate.Cmp("", errTerm, token.EQL, sentinel),
		gate.CallBool("", "errors.Is", true, errTerm, sentinel))
}

// beWrite: the big-endian encoding of a value (width bytes) is written to
// dest, in any of the forms binary.Write(dest, BigEndian, v);
// PutUintN(arr[:], v) + dest.Write(arr[:]); dest.Write(EncodeBytesUint(v, n)).
// ok = the write's error is honoured (CallOK) rather than merely executed.
func beWrite(key, dest string, width int, val string, ok bool) gate.Gate {
	mk := func(callee string, args ...string) gate.Gate {
		if ok {
			return gate.CallOK("", callee, args...)
		}
		return gate.CallInstr("", callee, args...)
	}
	arr := fmt.Sprintf("{be%d(%s)|slice(be%d(%s),*)}", width, val, width, val)
	enc := fmt.Sprintf("call:bigendian.EncodeBytesUint(%s,const:%d)#0", val, width)
	return either(key, fmt.Sprintf("%d-byte big-endian %s written to %s", width, val, dest),
		mk("binary.Write", dest, "global:binary.BigEndian", val),
		mk("(*bytes.Buffer).Write", dest, arr), mk("invoke:io.Writer.Write", dest, arr), mk("(*bundle.CountingWriter).Write", dest, arr),
		mk("(*bytes.Buffer).Write", dest, enc), mk("invoke:io.Writer.Write", dest, enc))
}

// loopStart: the first index visited by the loop whose header is h (0 for a
// range loop, k for "for i := k; i < len(x); i++").
func loopStart(h *ssa.BasicBlock) int64 {
	ifi, ok := h.Instrs[len(h.Instrs)-1].(*ssa.If)
	if !ok {
		return 0
	}
	c, ok := ifi.Cond.(*ssa.BinOp)
	if !ok {
		return 0
	}
	if ph, ok := c.X.(*ssa.Phi); ok && ph.Comment != "rangeindex" {
		return prov.LoopStart(ph)
	}
	return 0
}

// isLenLoop: the loop header compares its counter with len(...).
func isLenLoop(h *ssa.BasicBlock) bool {
	ifi, ok := h.Instrs[len(h.Instrs)-1].(*ssa.If)
	if !ok {
		return false
	}
	c, ok := ifi.Cond.(*ssa.BinOp)
	if !ok {
		return false
	}
	call, ok := c.Y.(*ssa.Call)
	if !ok {
		return false
	}
	bi, ok := call.Call.Value.(*ssa.Builtin)
	return ok && bi.Name() == "len"
}

// helperContains: in is a call to a module function the rule tables do not
// know, and that function (with its parameters standing for the arguments of
// this call) executes an instruction matching g: an emission step moved into
// a new helper is found at the helper's call site.
func helperContains(e *Env, in ssa.Instruction, g gate.Gate, depth int) bool {
	c, ok := in.(*ssa.Call)
	if !ok || g.Instr == nil || depth > 1 {
		return false
	}
	h := c.Call.StaticCallee()
	if h == nil || h.Blocks == nil || !e.P.InModule(h) || prov.KnownFunction(h) || len(c.Call.Args) != len(h.Params) {
		return false
	}
	prov.PushSubst(h, &c.Call)
	defer prov.PopSubst()
	for _, b := range h.Blocks {
		for _, i2 := range b.Instrs {
			if g.Instr(i2) || helperContains(e, i2, g, depth+1) {
				return true
			}
		}
	}
	return false
}

// helperOrder: inside the helper called by in (parameters standing for the
// arguments of the call), every instruction matching g1 precedes every
// instruction matching g2.
func helperOrder(e *Env, in ssa.Instruction, g1, g2 gate.Gate) bool {
	c, ok := in.(*ssa.Call)
	if !ok {
		return false
	}
	h := c.Call.StaticCallee()
	if h == nil || h.Blocks == nil {
		return false
	}
	prov.PushSubst(h, &c.Call)
	defer prov.PopSubst()
	var s1, s2 []ssa.Instruction
	for _, b := range h.Blocks {
		for _, i2 := range b.Instrs {
			// (a step may itself sit one helper further down)
			if g1.Instr != nil && (g1.Instr(i2) || helperContains(e, i2, g1, 1)) {
				s1 = append(s1, i2)
			}
			if g2.Instr != nil && (g2.Instr(i2) || helperContains(e, i2, g2, 1)) {
				s2 = append(s2, i2)
			}
		}
	}
	if len(s1) == 0 || len(s2) == 0 {
		return false
	}
	ctx := gate.New(e.P, e.P.VTA())
	for _, a := range s1 {
		for _, b := range s2 {
			if a == b || !ctx.Reaches(a, b) || ctx.Reaches(b, a) {
				return false
			}
		}
	}
	return true
}

// unknownHelperCalls: the calls in fn to module functions that the rule tables
// do not know (code moved into a new helper).
func unknownHelperCalls(e *Env, fn *ssa.Function) []*ssa.Call {
	var out []*ssa.Call
	for _, b := range fn.Blocks {
		for _, in := range b.Instrs {
			c, ok := in.(*ssa.Call)
			if !ok {
				continue
			}
			h := c.Call.StaticCallee()
			if h == nil || h.Blocks == nil || !e.P.InModule(h) || prov.KnownFunction(h) || len(c.Call.Args) != len(h.Params) {
				continue
			}
			out = append(out, c)
		}
	}
	return out
}

// instrInHelper: in is a call to an unknown helper that (with its parameters
// standing for the arguments) contains an instruction accepted by match.
// gateBeforeInHelper: in the helper called by c (parameters standing for the
// arguments), every instruction accepted by match is reachable from the
// helper's entry only through g.
func gateBeforeInHelper(e *Env, c *ssa.Call, cfg gcfg, match func(ssa.Instruction) bool, g gate.Gate) bool {
	h := c.Call.StaticCallee()
	if h == nil || h.Blocks == nil {
		return false
	}
	prov.PushSubst(h, &c.Call)
	defer prov.PopSubst()
	ctx := gate.New(e.P, e.P.VTA(), cfg.assume...)
	found := false
	for _, hb := range h.Blocks {
		for _, i2 := range hb.Instrs {
			if !match(i2) {
				continue
			}
			found = true
			if hb == h.Blocks[0] {
				return false
			}
			_, w := ctx.EstablishedFrom(h, h.Blocks[0], gate.Outcome{Kind: gate.NoExit}, g, map[*ssa.BasicBlock]bool{hb: true})
			for _, line := range w {
				if strings.HasPrefix(line, "reaches block") {
					return false
				}
			}
		}
	}
	return found
}

// forEachInstrWithHelpers calls f for every instruction of fn and, with the
// parameters standing for the call's arguments, for every instruction of the
// helpers fn calls that the rule tables do not know.
func forEachInstrWithHelpers(e *Env, fn *ssa.Function, f func(in ssa.Instruction)) {
	for _, b := range fn.Blocks {
		for _, in := range b.Instrs {
			f(in)
		}
	}
	for _, c := range unknownHelperCalls(e, fn) {
		h := c.Call.StaticCallee()
		prov.PushSubst(h, &c.Call)
		for _, b := range h.Blocks {
			for _, in := range b.Instrs {
				f(in)
			}
		}
		prov.PopSubst()
	}
}

func instrInHelper(e *Env, in ssa.Instruction, match func(ssa.Instruction) bool, depth int) bool {
	c, ok := in.(*ssa.Call)
	if !ok || depth > 1 {
		return false
	}
	h := c.Call.StaticCallee()
	if h == nil || h.Blocks == nil || !e.P.InModule(h) || prov.KnownFunction(h) || len(c.Call.Args) != len(h.Params) {
		return false
	}
	prov.PushSubst(h, &c.Call)
	defer prov.PopSubst()
	for _, b := range h.Blocks {
		for _, i2 := range b.Instrs {
			if match(i2) || instrInHelper(e, i2, match, depth+1) {
				return true
			}
		}
	}
	return false
}
