package props

import (
	"fmt"
	"go/token"
	"strings"

	"golang.org/x/tools/go/ssa"

	"wpverif/internal/gate"
	"wpverif/internal/prov"
)

func init() { register("C02", checkC02) }

func checkC02(e *Env) {
	e.R.Explanation = "Decided (structural necessary conditions of C02): (a) length-field guard exactness: EncodeBytesUint, evaluated by constant propagation for each width 1..6 at n = 2^(8*size)-1 (must encode) and n = 2^(8*size) (must be refused), and for n = -1; the bytes stored are (n >> 8*(size-i-1)) & 0xff, big-endian; (b) the limits are gates of Exchange.Write for b2/b3: len(Signature) <= 16384, headerLength <= 524288, and the three EncodeBytesUint calls (URL width 2, signature width 3, headers width 3) succeeded; b1: the two width-3 calls; each length field is written before the bytes it measures; (c) the widths the writer passes (2, 3, 3) are the widths the reader decodes (uint16, [3]byte, [3]byte) and the reader allocates exactly the decoded lengths; (d) header maps: the pseudo keys are the same package variables on both sides, names are lower-cased and values joined with ',' on write, upper-case names refused on read; (e) MiEncodePayload takes encoding, content-encoding and digest-header name from e.Version.MiceEncoding(), as verifyPayload does, and refuses an exchange that already has a digest header. " +
		"Not decided: equality of what is read back with what was written; verdict stability over [date, expires]; the MI round trip (C14); the order of the fields (pinned by the golden tests)."
	e.R.RuleText = "constant propagation under assumptions (size, n) through the guard expression; E2 gates per version; instruction-order rule; provenance of allocation sizes; E7 key agreement"
	// ERRUSE: no error of a data-fallible module call is lost on the way (shared rule, erruse.go)
	moduleErrorsConsumed(e, erruseEntries, 10, "signedexchange.")

	// (a)
	eb := e.fn("signedexchange/internal/bigendian.EncodeBytesUint")
	if eb != nil {
		ok0 := gate.Outcome{Kind: gate.ErrNil, Idx: 1}
		for size := 1; size <= 6; size++ {
			lim := uint64(1) << (8 * uint(size))
			for _, c := range []struct {
				n    string
				want bool
			}{{fmt.Sprint(lim - 1), true}, {fmt.Sprint(lim), false}} {
				ctx := gate.New(e.P, e.P.VTA(), gate.Assumption{ProvPat: "param:size", Value: fmt.Sprint(size)}, gate.Assumption{ProvPat: "param:n", Value: c.n})
				reach := ctx.SuccessReachable(eb, ok0)
				key := fmt.Sprintf("EncodeBytesUint:size=%d,n=%s", size, c.n)
				if reach == c.want {
					how := "encodes"
					if !c.want {
						how = "is refused (ErrOutOfRange)"
					}
					e.R.OK("TABLE", key, e.P.Pos(eb.Pos()), how)
				} else if c.want {
					e.R.Fail("TABLE", key, e.P.Pos(eb.Pos()), "the largest value that fits the field is refused")
				} else {
					e.R.Fail("TABLE", key, e.P.Pos(eb.Pos()), "a value one past the largest encodable integer is accepted: it is written as zeros and reads back differently")
				}
			}
		}
		ctx := gate.New(e.P, e.P.VTA(), gate.Assumption{ProvPat: "param:size", Value: "3"}, gate.Assumption{ProvPat: "param:n", Value: "-1"})
		if !ctx.SuccessReachable(eb, ok0) {
			e.R.OK("TABLE", "EncodeBytesUint:negative", e.P.Pos(eb.Pos()), "negative values are refused")
		} else {
			e.R.Fail("TABLE", "EncodeBytesUint:negative", e.P.Pos(eb.Pos()), "a negative value is encoded")
		}
		// byte i = low byte of n >> 8*(size-1-i): index loop or range loop, the
		// exponent written either way round, with or without the redundant & 0xff
		tI := "{rangeidx|phi((↺ + const:1)|const:0)}"
		tShift := "conv({(((param:size - " + tI + ") - const:1) * const:8)|(((param:size - const:1) - " + tI + ") * const:8)})"
		firstOf(e,
			func(e *Env) {
				e.requireStore("TABLE", eb, "make([]byte,param:size)[{rangeidx|_}]", "conv({(param:n >> "+tShift+")|((param:n >> "+tShift+") & const:255)})", "byte i = (n >> 8*(size-i-1)) & 0xff (big-endian)")
			},
			// ... or filled from the last byte backwards: bs[i] = byte(rest); rest >>= 8 for i = size-1 .. 0
			func(e *Env) {
				found := false
				for _, b := range eb.Blocks {
					for _, in := range b.Instrs {
						st, ok := in.(*ssa.Store)
						if !ok {
							continue
						}
						ia, ok := st.Addr.(*ssa.IndexAddr)
						if !ok || prov.Of(ia.X) != "make([]byte,param:size)" {
							continue
						}
						ph, ok := ia.Index.(*ssa.Phi)
						if ok && countsDownFrom(ph, "(param:size - const:1)") && prov.Match("conv(phi({(↺ >> const:8)|conv(param:n)}|{(↺ >> const:8)|conv(param:n)}))", prov.Of(st.Val)) {
							found = true
						}
					}
				}
				if found {
					e.R.OK("TABLE", "signedexchange/internal/bigendian.EncodeBytesUint:descending-fill", e.P.Pos(eb.Pos()), "bytes are written from index size-1 down to 0, each the low byte of the value, value >>= 8: big-endian")
				} else {
					e.R.Fail("TABLE", "signedexchange/internal/bigendian.EncodeBytesUint:descending-fill", e.P.Pos(eb.Pos()), "no big-endian fill of the buffer recognised")
				}
			})
		e.requireResult("TABLE", eb, ok0, 0, "make([]byte,param:size)", "a buffer of exactly size bytes")
	}

	// (b)
	w := e.fn("signedexchange.(*Exchange).Write")
	wo := gate.Outcome{Kind: gate.ErrNil, Idx: 0}
	tHL := "call:(*bytes.Buffer).Len(local:headerBuf)"
	encLen := func(key, x, width string) gate.Gate {
		return gate.CallOK(key, "bigendian.EncodeBytesUint", "conv("+x+")", "const:"+width)
	}
	wr := func(key, arg string) gate.Gate { return gate.CallOK(key, "invoke:io.Writer.Write", "param:w", arg) }
	common := []gate.Gate{
		gate.CallOK("W.headers", "(*signedexchange.Exchange).DumpExchangeHeaders", "param:e", "local:headerBuf"),
		wr("W.magic", "call:(signedexchange/version.Version).HeaderMagicBytes(param:e.Version)"),
		encLen("W.siglen", "len(param:e.SignatureHeaderValue)", "3"),
		wr("W.siglen.write", "call:bigendian.EncodeBytesUint(conv(len(param:e.SignatureHeaderValue)),const:3)#0"),
		encLen("W.hdrlen", tHL, "3"),
		wr("W.hdrlen.write", "call:bigendian.EncodeBytesUint(conv("+tHL+"),const:3)#0"),
		wr("W.sig", "conv(param:e.SignatureHeaderValue)"),
		gate.CallOK("W.hdr", "io.Copy", "param:w", "local:headerBuf"),
		wr("W.payload", "param:e.Payload"),
	}
	e.requireGates("GATE", w, wo, sxgVersion("1b1"), common...)
	for _, v := range []string{"1b2", "1b3"} {
		gs := append([]gate.Gate{}, common...)
		gs = append(gs,
			encLen("W.urllen", "len(param:e.RequestURI)", "2"),
			wr("W.urllen.write", "call:bigendian.EncodeBytesUint(conv(len(param:e.RequestURI)),const:2)#0"),
			wr("W.url", "conv(param:e.RequestURI)"),
			gate.Cmp("W.sig-limit", "len(param:e.SignatureHeaderValue)", token.LEQ, "const:16384"),
			gate.Cmp("W.hdr-limit", tHL, token.LEQ, "const:524288"),
		)
		e.requireGates("GATE", w, wo, sxgVersion(v), gs...)
	}
	// header length is measured after the headers were dumped and before they are copied out
	if w != nil {
		var dump, length, copyOut ssa.Instruction
		for _, b := range w.Blocks {
			for _, in := range b.Instrs {
				if c, ok := in.(*ssa.Call); ok {
					switch prov.CalleeName(&c.Call) {
					case "(*signedexchange.Exchange).DumpExchangeHeaders":
						dump = in
					case "(*bytes.Buffer).Len":
						length = in
					case "io.Copy":
						if copyOut == nil {
							copyOut = in
						}
					}
				}
			}
		}
		key := "signedexchange.(*Exchange).Write:header-length-measured"
		if dump != nil && length != nil && copyOut != nil && before(dump, length) && before(length, copyOut) {
			e.R.OK("ORDER", key, e.P.InstrPos(length), "headerLength is the buffer length after the headers were encoded and before the buffer is drained")
		} else {
			e.R.Fail("ORDER", key, e.P.Pos(w.Pos()), "headerLength is not measured between encoding the headers and writing them")
		}
	}

	// (c) reader widths
	rp := e.fn("signedexchange.ReadExchangePrologue")
	if rp != nil {
		type mk struct{ pat, what string }
		want := []mk{
			{"make([]byte,local:fallbackUrlLength)", "fallback URL sized by the 2-byte field"},
			{"make([]byte,call:bigendian.Decode3BytesUint(local:sigLengthBytes))", "signature sized by the first 3-byte field"},
			{"make([]byte,call:bigendian.Decode3BytesUint(local:headerLengthBytes))", "headers sized by the second 3-byte field"},
		}
		var got []string
		for _, b := range rp.Blocks {
			for _, in := range b.Instrs {
				if ms, ok := in.(*ssa.MakeSlice); ok {
					got = append(got, prov.Of(ms))
				}
			}
		}
		for _, wv := range want {
			found := false
			for _, g := range got {
				if g == wv.pat {
					found = true
				}
			}
			key := "ReadExchangePrologue:alloc(" + wv.what + ")"
			if found {
				e.R.OK("AGREE", key, e.P.Pos(rp.Pos()), "reader allocates "+wv.what)
			} else {
				e.R.Fail("AGREE", key, e.P.Pos(rp.Pos()), "reader does not size its buffer for "+wv.what+"; allocations: "+strings.Join(got, " ; "))
			}
		}
		// field types: uint16 and [3]byte
		widths := map[string]string{}
		for _, b := range rp.Blocks {
			for _, in := range b.Instrs {
				if al, ok := in.(*ssa.Alloc); ok {
					switch cn := prov.CanonLocal(rp, al.Comment); cn {
					case "fallbackUrlLength", "sigLengthBytes", "headerLengthBytes":
						widths[cn] = al.Type().String()
					}
				}
			}
		}
		wantW := map[string]string{"fallbackUrlLength": "*uint16", "sigLengthBytes": "*[3]byte", "headerLengthBytes": "*[3]byte"}
		okW := true
		for k, v := range wantW {
			if widths[k] != v {
				okW = false
			}
		}
		if okW {
			e.R.OK("AGREE", "length-field-widths", e.P.Pos(rp.Pos()), "reader decodes a 2-byte URL length and two 3-byte lengths, the widths the writer passes to EncodeBytesUint (2, 3, 3)")
		} else {
			e.R.Fail("AGREE", "length-field-widths", e.P.Pos(rp.Pos()), fmt.Sprintf("reader field widths %v differ from the writer's (2,3,3)", widths))
		}
		ro := gate.Outcome{Kind: gate.ErrNil, Idx: 1}
		e.requireGates("GATE", rp, ro, noCfg,
			gate.CallOK("R.magic", "io.ReadFull", "param:r", "slice(alloc:[8]byte,,const:8)"),
			gate.CallOK("R.version", "signedexchange/version.FromMagicBytes", "slice(alloc:[8]byte,,const:8)"),
			gate.CallOK("R.sig", "io.ReadFull", "param:r", "make([]byte,call:bigendian.Decode3BytesUint(local:sigLengthBytes))"),
			gate.CallOK("R.hdr", "io.ReadFull", "param:r", "make([]byte,call:bigendian.Decode3BytesUint(local:headerLengthBytes))"),
			gate.CallOK("R.decode", "(*signedexchange.Exchange).decodeExchangeHeaders", "*", "call:cbor.NewDecoder(call:bytes.NewBuffer(make([]byte,call:bigendian.Decode3BytesUint(local:headerLengthBytes))))"),
		)
	}

	// (c') the reader refuses a file only for the reasons the format gives it in
	// that version: b1 has no length limits (the writer applies none there), so a
	// limit check in the reader would refuse what Write produces
	if rp := e.fn("signedexchange.ReadExchangePrologue"); rp != nil {
		tSig := "call:bigendian.Decode3BytesUint(local:sigLengthBytes)"
		tHdr := "call:bigendian.Decode3BytesUint(local:headerLengthBytes)"
		io := []gate.Gate{
			gate.CallOK("R.magic", "io.ReadFull", "param:r", "*"),
			gate.CallOK("R.version", "signedexchange/version.FromMagicBytes", "*"),
			gate.CallOK("R.urllen", "binary.Read", "param:r", "global:binary.BigEndian", "*"),
			gate.CallOK("R.url", "signedexchange.validateFallbackURL", "*"),
			gate.CallOK("R.decode", "(*signedexchange.Exchange).decodeExchangeHeaders", "*", "*"),
		}
		for _, v := range sxgVersions {
			gs := append([]gate.Gate{}, io...)
			if v != "1b1" {
				gs = append(gs,
					gate.Cmp("R.sig-limit", tSig, token.LEQ, "const:16384"),
					gate.Cmp("R.hdr-limit", tHdr, token.LEQ, "const:524288"))
			}
			rejectionsListed(e, "REJECT", rp, gate.Outcome{Kind: gate.ErrNil, Idx: 1}, sxgVersion(v), gs, "reads succeed, version known, fallback URL valid, headers decode; length limits only where the writer applies them")
		}
	}

	// (c'') the fallback URL the reader hands out is the very byte string the file
	// carries (what Write emitted), not a re-serialisation of its parsed form
	if vf := e.fn("signedexchange.validateFallbackURL"); vf != nil {
		e.requireResult("AGREE", vf, gate.Outcome{Kind: gate.ErrNil, Idx: 1}, 0, "conv(param:urlBytes)", "the URL bytes of the file, unchanged")
	}
	if rp := e.fn("signedexchange.ReadExchangePrologue"); rp != nil {
		e.requireStore("AGREE", rp, "alloc:signedexchange.Exchange.RequestURI", "{call:signedexchange.validateFallbackURL(make([]byte,local:fallbackUrlLength))#0|conv(make([]byte,local:fallbackUrlLength))}", "the validated fallback URL bytes read from the file")
	}

	// (d) header maps
	headerEntriesComplete(e, "AGREE")
	// (f) the verifier's payload step refuses what MiEncodePayload produced on no ground other than the listed ones
	vp := e.fn("signedexchange.verifyPayload")
	rejectionsListed(e, "REJECT", vp, gate.Outcome{Kind: gate.ErrNil, Idx: 1}, noCfg, verifyGatesC01(), "digest header present, decoder constructed, whole payload read")
	e.requireResult("AGREE", vp, gate.Outcome{Kind: gate.ErrNil, Idx: 1}, 0, "call:i*.ReadAll("+tDecoder+"#0)#0", "everything the MI decoder yields for e.Payload")
	e.R.Floor("REJECT", 3)
	e.requireResult("AGREE", e.fn("signedexchange.normalizeHeaderValues"), gate.Outcome{Kind: gate.AnyReturn}, 0, `call:strings.Join(param:values,const:",")`, "values joined with ','")
	for _, name := range []string{"signedexchange.(*Exchange).decodeRequestMap", "signedexchange.(*Exchange).decodeResponseMap"} {
		countedLoop(e, "FORALL", e.fn(name), "call:(*cbor.Decoder).DecodeMapHeader(param:dec)#0",
			gate.Cmp("H.lower", "conv(call:(*cbor.Decoder).DecodeByteString(param:dec)#0)", token.EQL, "call:strings.ToLower(conv(call:(*cbor.Decoder).DecodeByteString(param:dec)#0))"))
	}
	pseudoAgree(e)

	// (e)
	mp := e.fn("signedexchange.(*Exchange).MiEncodePayload")
	tEnc := "call:(signedexchange/version.Version).MiceEncoding(param:e.Version)"
	e.requireGates("GATE", mp, wo, noCfg,
		gate.Cmp("M.no-digest-yet", "call:(http.Header).Get(param:e.ResponseHeaders,call:(mice.Encoding).DigestHeaderName("+tEnc+"))", token.EQL, `const:""`),
		gate.CallOK("M.encode", "(mice.Encoding).Encode", tEnc, "local:buf", "param:e.Payload", "param:recordSize"),
		gate.CallInstr("M.content-encoding", "(http.Header).Add", "param:e.ResponseHeaders", `const:"Content-Encoding"`, "call:(mice.Encoding).ContentEncoding("+tEnc+")"),
		gate.CallInstr("M.digest", "(http.Header).Add", "param:e.ResponseHeaders", "call:(mice.Encoding).DigestHeaderName("+tEnc+")", "call:(mice.Encoding).Encode("+tEnc+",local:buf,param:e.Payload,param:recordSize)#0"),
	)
	e.requireStore("RESULT", mp, "param:e.Payload", "call:(*bytes.Buffer).Bytes(local:buf)", "the MI-encoded payload")
	// one header entry per field, one record per element
	iterationsIndependent(e, "ITER", e.fns("signedexchange.(*Exchange).Write", "signedexchange.ReadExchangePrologue", "signedexchange.(*Exchange).MiEncodePayload", "signedexchange.verifyPayload")...)
	// the payload handed back by Verify comes out of the MI decoder: its unit
	// logic is part of the round trip (seed C02-f)
	c15Obligations(e, "C02 inherits")
	e.R.Floor("ITER", 6)
	e.R.Floor("TABLE", 14)
	e.R.Floor("GATE", 40)
	e.R.Floor("AGREE", 8)
}

// pseudoAgree: the pseudo-header keys are the same package variables in the
// encoders and the decoders.
func pseudoAgree(e *Env) {
	uses := func(fnName, global string) bool {
		fn, ok := e.P.FuncOK(fnName)
		if !ok {
			return false
		}
		for _, f := range withAnon(fn) {
			for _, b := range f.Blocks {
				for _, in := range b.Instrs {
					if c, ok := in.(ssa.CallInstruction); ok {
						for _, a := range c.Common().Args {
							if prov.Of(a) == global {
								return true
							}
						}
					}
				}
			}
		}
		return false
	}
	for _, k := range []struct{ global, enc, dec string }{
		{"global:signedexchange.keyMethod", "signedexchange.(*Exchange).encodeRequestMap", "signedexchange.(*Exchange).decodeRequestMap"},
		{"global:signedexchange.keyURL", "signedexchange.(*Exchange).encodeRequestMap", "signedexchange.(*Exchange).decodeRequestMap"},
		{"global:signedexchange.keyStatus", "signedexchange.(*Exchange).encodeResponseMap", "signedexchange.(*Exchange).decodeResponseMap"},
	} {
		key := "pseudo-key:" + strings.TrimPrefix(k.global, "global:signedexchange.")
		if uses(k.enc, k.global) && uses(k.dec, k.global) {
			e.R.OK("AGREE", key, "-", "writer and reader use the same package variable for this pseudo header")
		} else {
			e.R.Fail("AGREE", key, "-", "writer and reader no longer share the pseudo-header key "+k.global)
		}
	}
}
