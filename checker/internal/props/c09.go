package props

import (
	"fmt"
	"go/token"
	"go/types"
	"sort"
	"strconv"
	"strings"

	"golang.org/x/tools/go/ssa"

	"wpverif/internal/gate"
	"wpverif/internal/load"
	"wpverif/internal/prov"
)

func init() { register("C09", checkC09) }

const tCC = `call:signedexchange.parseCacheControlDirectives(call:(http.Header).Get(param:e.ResponseHeaders,const:"Cache-Control"))`

func ccHas(key, directive string, want bool) gate.Gate {
	return gate.BoolVal(key, `ok:`+tCC+`[const:"`+directive+`"]`, want)
}

// policyGates: the acceptance conditions of C09 as leaf gates (Appendix A).
func policyGates(version string) []gate.Gate {
	gs := []gate.Gate{
		gate.CallOK("V.origin.parse1", "url.Parse", tSigItem+".ValidityUrl"),
		gate.CallOK("V.origin.parse2", "url.Parse", "param:e.RequestURI"),
		gate.CallBool("V.origin", "signedexchange.isSameOrigin", true, "call:url.Parse("+tSigItem+".ValidityUrl)#0", "call:url.Parse(param:e.RequestURI)#0"),
		gate.Cmp("V.origin.scheme", "param:u1.Scheme", token.EQL, "param:u2.Scheme"),
		gate.Cmp("V.origin.host", "param:u1.Host", token.EQL, "param:u2.Host"),
		gate.Cmp("V.integrity", "param:signature.Integrity", token.EQL, "call:(mice.Encoding).IntegrityIdentifier("+tMice+")"),
		gate.CallOK("V.hdrcall", "signedexchange.verifyHeaders", "param:e"),
		gate.CallOK("V.reshdrcall", "signedexchange.VerifyUncachedHeader", "param:e.ResponseHeaders"),
	}
	gs = append(gs, timeGates("V.t", "param:verificationTime", "call:time.Unix(param:sig.Date,const:0)", "call:time.Unix(param:sig.Expires,const:0)")...)
	switch version {
	case "1b1", "1b2":
		gs = append(gs, either("V.method", `request method is "GET" or "HEAD"`,
			gate.Cmp("", "param:e.RequestMethod", token.EQL, `const:"GET"`),
			gate.Cmp("", "param:e.RequestMethod", token.EQL, `const:"HEAD"`)))
	case "1b3":
		gs = append(gs,
			gate.Cmp("V.ctype", `call:(http.Header).Get(param:e.ResponseHeaders,const:"Content-Type")`, token.NEQ, `const:""`),
			gate.CallBool("V.cacheable", "(*signedexchange.Exchange).IsCacheable", true, "param:e", "param:l"),
			gate.Cmp("K.status-known", "call:http.StatusText(param:e.ResponseStatus)", token.NEQ, `const:""`),
			ccHas("K.no-store", "no-store", false),
			ccHas("K.private", "private", false),
			either("K.storable", "Expires / max-age / s-maxage / cacheable status / public",
				cacheAccepts()...),
		)
	}
	return gs
}

func cacheAccepts() []gate.Gate {
	return []gate.Gate{
		gate.Cmp("K.expires", `call:(http.Header).Get(param:e.ResponseHeaders,const:"Expires")`, token.NEQ, `const:""`),
		ccHas("K.max-age", "max-age", true),
		ccHas("K.s-maxage", "s-maxage", true),
		gate.Cmp("K.status-cacheable", "alloc:[*]int[call:sort.SearchInts(alloc:[*]int,param:e.ResponseStatus)]", token.EQL, "param:e.ResponseStatus"),
		// ... or a switch over the status (the constants are checked by TABLE:cacheable-status-codes)
		gate.Cmp("K.status-cacheable", "param:e.ResponseStatus", token.EQL, "const:*"),
		ccHas("K.public", "public", true),
	}
}

func checkC09(e *Env) {
	e.R.Explanation = "Decided (structural necessary conditions of C09): per version, every CFG path of (*Exchange).Verify to 'return _, true' passes each acceptance gate with the exact operator and operands — validity-url parsed and same-origin (scheme and host equal), not(expires-date > 604800 s), not(t < date), not(t > expires), integrity id equal to the version's, GET/HEAD only (b1/b2), IsCacheable true and Content-Type present (b3), IsCacheable unreachable under b1/b2, every request-header key not stateful, every response-header key not uncached (lower-cased lookups); " +
		"inside IsCacheable: status known, no-store/private absent, one of Expires/max-age/s-maxage/cacheable-status/public; no *unlisted* rejecting branch exists in the policy functions (the structural side of 'none satisfying all conditions is rejected'); the banned-header sets, the cacheable-status list (sorted, it is binary-searched) and the limits equal the specification's. " +
		"Not decided: url.Parse, tokenisation in parseCacheControlDirectives, run-time combinations of conditions."
	e.R.RuleText = "E2 must-pass-through per version + 'no unlisted rejection': every branch edge after which success is unreachable (back edges cut) must be the failing side of a listed gate; E7 constant tables extracted from SSA stores and compared with the specification constants of DESIGN Appendix B"
	verify := e.fn("signedexchange.(*Exchange).Verify")
	success := gate.Outcome{Kind: gate.BoolTrue, Idx: 1}
	for _, v := range sxgVersions {
		cfg := sxgVersion(v)
		e.requireGates("GATE", verify, success, cfg, policyGates(v)...)
		if v != "1b3" {
			unreachableCall(e, "GATE", verify, cfg, "(*signedexchange.Exchange).IsCacheable", "IsCacheable must not be called for "+v+" (it panics)")
		}
	}
	e.R.Floor("GATE", 40)

	// every header key is checked
	forAllIterations(e, "FORALL", e.fn("signedexchange.verifyHeaders"), "param:e.RequestHeaders", noCfg,
		gate.CallBool("V.reqhdr", "signedexchange.IsStatefulRequestHeader", false, "rangekey(param:e.RequestHeaders)"))
	forAllIterations(e, "FORALL", e.fn("signedexchange.VerifyUncachedHeader"), "param:h", noCfg,
		gate.CallBool("V.reshdr", "signedexchange.IsUncachedHeader", false, "rangekey(param:h)"))
	e.requireResult("FORALL", e.fn("signedexchange.IsStatefulRequestHeader"), gate.Outcome{Kind: gate.AnyReturn}, 0,
		"ok:global:signedexchange.statefulRequestHeadersSet[call:strings.ToLower(param:n)]", "membership of the lower-cased name in the stateful-request-header set")
	e.requireResult("FORALL", e.fn("signedexchange.IsUncachedHeader"), gate.Outcome{Kind: gate.AnyReturn}, 0,
		"ok:global:signedexchange.uncachedHeadersSet[call:strings.ToLower(param:n)]", "membership of the lower-cased name in the uncached-header set")
	e.R.Floor("FORALL", 4)

	noUnlistedRejections(e)
	policyTables(e)
}

// unreachableCall: under cfg, no path from the entry of fn reaches a call to callee.
func unreachableCall(e *Env, rule string, fn *ssa.Function, cfg gcfg, calleePat, why string) {
	if fn == nil {
		return
	}
	stop := map[*ssa.BasicBlock]bool{}
	for _, b := range fn.Blocks {
		for _, in := range b.Instrs {
			if c, ok := in.(ssa.CallInstruction); ok && prov.Match(calleePat, prov.CalleeName(c.Common())) {
				stop[b] = true
			}
		}
	}
	key := load.FuncName(fn) + ":unreachable(" + calleePat + ")"
	if len(stop) == 0 {
		x := e.R.OK(rule, key, e.P.Pos(fn.Pos()), "no call site at all")
		x.Config = cfg.name
		return
	}
	ctx := gate.New(e.P, e.P.VTA(), cfg.assume...)
	// Never-gate + stop blocks: "established" means the stop blocks (and exits) are unreachable;
	// exits are irrelevant here, so ask for an outcome no return has.
	ok, w := ctx.EstablishedFrom(fn, fn.Blocks[0], gate.Outcome{Kind: gate.NoExit}, gate.Never, stop)
	_ = ok
	reached := false
	for _, line := range w {
		if strings.HasPrefix(line, "reaches block") {
			reached = true
		}
	}
	if !reached {
		x := e.R.OK(rule, key, e.P.Pos(fn.Pos()), why+": unreachable in the specialised CFG")
		x.Config = cfg.name
	} else {
		x := e.R.Fail(rule, key, e.P.Pos(fn.Pos()), why+", but a path reaches the call", w...)
		x.Config = cfg.name
	}
}

// noUnlistedRejections: in the policy functions every rejecting branch is the
// failing side of a listed gate.
func noUnlistedRejections(e *Env) {
	listed := map[string]gate.Gate{}
	add := func(gs ...gate.Gate) {
		for _, g := range gs {
			listed[g.Key] = g
		}
	}
	for _, v := range sxgVersions {
		add(policyGates(v)...)
	}
	add(verifyGatesC01()...)
	add(cacheAccepts()...)
	add(
		gate.Cmp("V.ctype", `call:(http.Header).Get(param:e.ResponseHeaders,const:"Content-Type")`, token.NEQ, `const:""`),
		// auxiliary: loop conditions and the search result guard
		gate.Cmp("aux.more-signatures", "*", token.LSS, "len(call:structuredheader.ParseParameterisedList(param:e.SignatureHeaderValue)#0)"),
		gate.Cmp("aux.search-in-range", "call:sort.SearchInts(alloc:[*]int,param:e.ResponseStatus)", token.LSS, "len(alloc:[*]int)"),
		gate.CallBool("V.reqhdr", "signedexchange.IsStatefulRequestHeader", false, "rangekey(param:e.RequestHeaders)"),
		gate.CallBool("V.reshdr", "signedexchange.IsUncachedHeader", false, "rangekey(param:h)"),
	)
	var gs []gate.Gate
	var keys []string
	for k := range listed {
		keys = append(keys, k)
	}
	sort.Strings(keys)
	for _, k := range keys {
		gs = append(gs, listed[k])
	}
	policy := []struct {
		name string
		o    gate.Outcome
	}{
		{"signedexchange.(*Exchange).Verify", gate.Outcome{Kind: gate.BoolTrue, Idx: 1}},
		{"signedexchange.verifySignature", gate.Outcome{Kind: gate.ErrNil, Idx: 2}},
		{"signedexchange.verifyTimestamps", gate.Outcome{Kind: gate.ErrNil, Idx: 0}},
		{"signedexchange.verifyPayload", gate.Outcome{Kind: gate.ErrNil, Idx: 1}},
		{"signedexchange.verifyHeaders", gate.Outcome{Kind: gate.ErrNil, Idx: 0}},
		{"signedexchange.VerifyUncachedHeader", gate.Outcome{Kind: gate.ErrNil, Idx: 0}},
		{"signedexchange.(*Exchange).IsCacheable", gate.Outcome{Kind: gate.BoolTrue, Idx: 0}},
		{"signedexchange.isSameOrigin", gate.Outcome{Kind: gate.BoolTrue, Idx: 0}},
	}
	ctx := gate.New(e.P, e.P.VTA())
	for _, pf := range policy {
		fn := e.fn(pf.name)
		if fn == nil {
			continue
		}
		n := 0
		for _, r := range ctx.Rejections(fn, pf.o) {
			n++
			var fs []string
			for _, f := range r.Facts {
				fs = append(fs, f.String())
			}
			desc := strings.Join(fs, " ; ")
			if len(desc) > 200 {
				desc = desc[:200] + "..."
			}
			key := fmt.Sprintf("%s:reject#%d", pf.name, n)
			if g, ok := ctx.Listed(r, gs); ok {
				e.R.OK("REJECT", key, e.P.InstrPos(r.Block.Instrs[len(r.Block.Instrs)-1]), "rejecting branch is the failing side of listed gate "+g)
			} else {
				e.R.Fail("REJECT", key, e.P.InstrPos(r.Block.Instrs[len(r.Block.Instrs)-1]),
					"a branch rejects the exchange on a condition that is not one of the specification's acceptance conditions (over-rejection)", "rejects when: "+desc)
			}
		}
	}
	e.R.Floor("REJECT", 25)
}

// constArrays returns, for every array literal of fn (an Alloc of array type
// with constant stores at constant indices), its element constants in order.
func constArrays(fn *ssa.Function) map[string][]string {
	out := map[string][]string{}
	idx := map[string]map[int]string{}
	for _, b := range fn.Blocks {
		for _, in := range b.Instrs {
			st, ok := in.(*ssa.Store)
			if !ok {
				continue
			}
			ia, ok := st.Addr.(*ssa.IndexAddr)
			if !ok {
				continue
			}
			al, ok := ia.X.(*ssa.Alloc)
			if !ok {
				continue
			}
			ic, ok := ia.Index.(*ssa.Const)
			if !ok {
				continue
			}
			vc, ok := st.Val.(*ssa.Const)
			if !ok {
				continue
			}
			name := prov.Of(al)
			if idx[name] == nil {
				idx[name] = map[int]string{}
			}
			idx[name][int(ic.Int64())] = strings.TrimPrefix(prov.Of(vc), "const:")
		}
	}
	for name, m := range idx {
		arr := make([]string, len(m))
		for i := range arr {
			arr[i] = m[i]
		}
		out[name] = arr
	}
	return out
}

func quoteAll(xs []string) []string {
	var out []string
	for _, x := range xs {
		out = append(out, fmt.Sprintf("%q", x))
	}
	return out
}

func sameSet(a, b []string) (missing, extra []string) {
	ma, mb := map[string]bool{}, map[string]bool{}
	for _, x := range a {
		ma[x] = true
	}
	for _, x := range b {
		mb[x] = true
	}
	for _, x := range b {
		if !ma[x] {
			missing = append(missing, x)
		}
	}
	for _, x := range a {
		if !mb[x] {
			extra = append(extra, x)
		}
	}
	return
}

// Specification constants (DESIGN Appendix B).
var (
	specStatefulRequestHeaders = []string{"authorization", "cookie", "cookie2", "proxy-authorization", "sec-websocket-key"}
	specUncachedHeaders        = []string{"connection", "keep-alive", "proxy-connection", "trailer", "transfer-encoding", "upgrade",
		"authentication-control", "authentication-info", "clear-site-data", "optional-www-authenticate", "proxy-authenticate",
		"proxy-authentication-info", "public-key-pins", "sec-websocket-accept", "set-cookie", "set-cookie2", "setprofile",
		"strict-transport-security", "www-authenticate"}
	specCacheableStatus = []string{"200", "203", "204", "206", "300", "301", "404", "405", "410", "414", "501"}
)

func policyTables(e *Env) {
	// the lists live in an init function or in package-level variable
	// initialisers (the synthesized package initialiser)
	initFn, _ := e.P.FuncOK("signedexchange.init#1")
	if f, ok := e.P.FuncOK("signedexchange.init"); ok && (initFn == nil || len(constArrays(initFn)) == 0) {
		if len(constArrays(f)) > 0 {
			initFn = f
		}
	}
	if initFn == nil {
		e.R.Undecided("ANCHOR", "signedexchange.init#1", "-", "neither an init function nor the package's variable initialisers contain the banned-header lists; the rules anchored on them cannot be evaluated")
	}
	if initFn != nil {
		arrs := constArrays(initFn)
		check := func(key string, want []string, setGlobal string) {
			var got []string
			found := false
			for name, a := range arrs {
				if strings.HasSuffix(name, "]string") && len(a) > 0 {
					// which map is it inserted into?  the range loop over this array updates setGlobal
					if arrayFeedsMap(initFn, name, setGlobal) {
						got, found = a, true
					}
				}
			}
			if !found {
				e.R.Undecided("TABLE", key, e.P.Pos(initFn.Pos()), "cannot find the literal list that fills "+setGlobal)
				return
			}
			missing, extra := sameSet(got, quoteAll(want))
			lower := true
			for _, g := range got {
				if strings.ToLower(g) != g {
					lower = false
				}
			}
			if len(missing) == 0 && len(extra) == 0 && lower {
				e.R.OK("TABLE", key, e.P.Pos(initFn.Pos()), fmt.Sprintf("%d lower-case names, equal to the specification's list", len(got)))
			} else {
				e.R.Fail("TABLE", key, e.P.Pos(initFn.Pos()), "banned-header set differs from the specification",
					"missing: "+strings.Join(missing, ","), "extra: "+strings.Join(extra, ","), fmt.Sprintf("all lower-case: %v", lower))
			}
		}
		check("stateful-request-headers", specStatefulRequestHeaders, "global:signedexchange.statefulRequestHeadersSet")
		check("uncached-response-headers", specUncachedHeaders, "global:signedexchange.uncachedHeadersSet")
	}
	ic := e.fn("signedexchange.(*Exchange).IsCacheable")
	if ic != nil {
		var got []string
		for name, a := range constArrays(ic) {
			if strings.HasSuffix(name, "]int") {
				got = a
			}
		}
		if got == nil {
			// the same set written as a switch over the status (ascending order is
			// only needed by the binary search): compared in sorted order
			got = switchConsts(ic, "param:e.ResponseStatus")
			sort.Slice(got, func(i, j int) bool {
				a, _ := strconv.Atoi(got[i])
				b, _ := strconv.Atoi(got[j])
				return a < b
			})
		}
		ok := len(got) == len(specCacheableStatus)
		for i := range got {
			if !ok || got[i] != specCacheableStatus[i] {
				ok = false
			}
		}
		if ok {
			e.R.OK("TABLE", "cacheable-status-codes", e.P.Pos(ic.Pos()), "equal to RFC 7231 section 6.1 and ascending (binary-searched)")
		} else {
			e.R.Fail("TABLE", "cacheable-status-codes", e.P.Pos(ic.Pos()), "heuristically-cacheable status list differs from RFC 7231 section 6.1 or is not ascending",
				"got  "+strings.Join(got, ","), "want "+strings.Join(specCacheableStatus, ","))
		}
	}
	e.R.Floor("TABLE", 3)
}

// arrayFeedsMap: fn ranges over the array and inserts each element as key into
// the map held by global.
func arrayFeedsMap(fn *ssa.Function, arr, global string) bool {
	// the set is built by a helper: global = newSet(arr[:]) where newSet inserts
	// every element of its parameter as a key into the map it returns
	for _, b := range fn.Blocks {
		for _, in := range b.Instrs {
			st, ok := in.(*ssa.Store)
			if !ok || prov.Of(st.Addr) != global {
				continue
			}
			c, ok := st.Val.(*ssa.Call)
			if !ok || len(c.Call.Args) != 1 {
				continue
			}
			h := c.Call.StaticCallee()
			if h == nil || h.Blocks == nil || len(h.Params) != 1 {
				continue
			}
			var src ssa.Value = c.Call.Args[0]
			// the list may itself be a package-level slice variable filled from the literal
			if ld, ok := src.(*ssa.UnOp); ok && ld.Op == token.MUL {
				if g, ok := ld.X.(*ssa.Global); ok {
					n := 0
					for _, b2 := range fn.Blocks {
						for _, i2 := range b2.Instrs {
							if st2, ok := i2.(*ssa.Store); ok && st2.Addr == ssa.Value(g) {
								src = st2.Val
								n++
							}
						}
					}
					if n != 1 || !globalWrittenOnlyIn(fn, g) {
						continue
					}
				}
			}
			if sl, ok := src.(*ssa.Slice); ok {
				src = sl.X
			}
			if al, ok := src.(*ssa.Alloc); !ok || allocArrayName(al) != arr {
				continue
			}
			if helperBuildsSet(h) {
				return true
			}
		}
	}
	for _, b := range fn.Blocks {
		for _, in := range b.Instrs {
			mu, ok := in.(*ssa.MapUpdate)
			if !ok {
				continue
			}
			if prov.Of(mu.Map) != global && !strings.HasPrefix(prov.Of(mu.Map), "makemap") {
				continue
			}
			if !globalHoldsMap(fn, mu.Map, global) {
				continue
			}
			if k := prov.Of(mu.Key); strings.HasPrefix(k, arr+"[") {
				return true
			}
		}
	}
	return false
}

func globalHoldsMap(fn *ssa.Function, m ssa.Value, global string) bool {
	// m is either a load of the global or the MakeMap value that was stored into it
	if prov.Of(m) == global {
		return true
	}
	for _, b := range fn.Blocks {
		for _, in := range b.Instrs {
			if st, ok := in.(*ssa.Store); ok && st.Val == m && prov.Of(st.Addr) == global {
				return true
			}
		}
	}
	// load of the global renders as the global's name
	if u, ok := m.(*ssa.UnOp); ok {
		return prov.Of(u.X) == global
	}
	return false
}

// helperBuildsSet: h returns a map it made itself, into which a loop over all
// elements of h's slice parameter (range, or index loop from 0) inserts each
// element as a key.
// globalWrittenOnlyIn: no function of the package other than fn stores to g
// (its elements included).
func globalWrittenOnlyIn(fn *ssa.Function, g *ssa.Global) bool {
	if g.Pkg == nil {
		return false
	}
	var visit func(f *ssa.Function) bool
	visit = func(f *ssa.Function) bool {
		if f == fn {
			return true
		}
		for _, b := range f.Blocks {
			for _, in := range b.Instrs {
				if st, ok := in.(*ssa.Store); ok && strings.HasPrefix(prov.Of(st.Addr), prov.Of(g)) {
					return false
				}
			}
		}
		for _, a := range f.AnonFuncs {
			if !visit(a) {
				return false
			}
		}
		return true
	}
	for _, m := range g.Pkg.Members {
		switch x := m.(type) {
		case *ssa.Function:
			if !visit(x) {
				return false
			}
		case *ssa.Type:
			for _, ms := range []*types.MethodSet{g.Pkg.Prog.MethodSets.MethodSet(x.Type()), g.Pkg.Prog.MethodSets.MethodSet(types.NewPointer(x.Type()))} {
				for i := 0; i < ms.Len(); i++ {
					if f := g.Pkg.Prog.MethodValue(ms.At(i)); f != nil && !visit(f) {
						return false
					}
				}
			}
		}
	}
	return true
}

// countsDownOver: ph is the index of a loop "for i := len(s)-1; i >= 0; i--".
func countsDownOver(ph *ssa.Phi, s ssa.Value) bool {
	return countsDownFrom(ph, "(len("+prov.Of(s)+") - const:1)")
}

// countsDownFrom: ph starts at the value rendered wantInit, is decremented by
// one per iteration and the loop runs while it is >= 0.
func countsDownFrom(ph *ssa.Phi, wantInit string) bool {
	if len(ph.Edges) != 2 {
		return false
	}
	var init ssa.Value
	dec := false
	for _, ed := range ph.Edges {
		if b, ok := ed.(*ssa.BinOp); ok && b.Op == token.SUB && b.X == ssa.Value(ph) && prov.Of(b.Y) == "const:1" {
			dec = true
		} else {
			init = ed
		}
	}
	if !dec || init == nil || prov.Of(init) != wantInit {
		return false
	}
	ifi, ok := ph.Block().Instrs[len(ph.Block().Instrs)-1].(*ssa.If)
	if !ok {
		return false
	}
	c, ok := ifi.Cond.(*ssa.BinOp)
	if !ok || c.X != ssa.Value(ph) {
		return false
	}
	return (c.Op == token.GEQ && prov.Of(c.Y) == "const:0") || (c.Op == token.GTR && prov.Of(c.Y) == "const:-1")
}

func helperBuildsSet(h *ssa.Function) bool {
	var ret ssa.Value
	n := 0
	for _, b := range h.Blocks {
		if r, ok := b.Instrs[len(b.Instrs)-1].(*ssa.Return); ok && len(r.Results) == 1 {
			ret = r.Results[0]
			n++
		}
	}
	if n != 1 {
		return false
	}
	if _, ok := ret.(*ssa.MakeMap); !ok {
		return false
	}
	p := prov.Of(h.Params[0])
	for _, l := range loopsOver(h, p) {
		if loopStart(l[0]) != 0 {
			continue
		}
		// the body entry dominates a MapUpdate(ret, p[rangeidx]) and the loop has no other exit
		for _, b := range h.Blocks {
			if !l[1].Dominates(b) {
				continue
			}
			for _, in := range b.Instrs {
				if mu, ok := in.(*ssa.MapUpdate); ok && mu.Map == ret && prov.Of(mu.Key) == p+"[rangeidx]" && b == l[1] {
					return true
				}
			}
		}
	}
	// an index loop counting down from len(p)-1 to 0
	for _, b := range h.Blocks {
		for _, in := range b.Instrs {
			mu, ok := in.(*ssa.MapUpdate)
			if !ok || mu.Map != ret {
				continue
			}
			ld, ok := mu.Key.(*ssa.UnOp)
			if !ok {
				continue
			}
			ia, ok := ld.X.(*ssa.IndexAddr)
			if !ok || ia.X != ssa.Value(h.Params[0]) {
				continue
			}
			if ph, ok := ia.Index.(*ssa.Phi); ok && countsDownOver(ph, h.Params[0]) && ph.Block().Dominates(b) && len(naturalLoops(h)) == 1 {
				return true
			}
		}
	}
	// range over the slice: the key is the range value
	for _, b := range h.Blocks {
		for _, in := range b.Instrs {
			if mu, ok := in.(*ssa.MapUpdate); ok && mu.Map == ret && (prov.Of(mu.Key) == p+"[rangeidx]" || prov.Of(mu.Key) == "rangeval("+p+")") {
				if len(loopsOver(h, p)) == 1 && len(naturalLoops(h)) == 1 {
					return true
				}
			}
		}
	}
	return false
}

// allocArrayName: the name constArrays gives to an array literal.
func allocArrayName(al *ssa.Alloc) string { return prov.Of(al) }
