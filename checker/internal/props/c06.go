package props

import (
	"go/token"
	"strings"

	"golang.org/x/tools/go/ssa"

	"wpverif/internal/gate"
	"wpverif/internal/prov"
)

func init() { register("C06", checkC06) }

const (
	tAuth      = "param:authorities[param:vs.Authority]"
	tSSVerif   = "call:signingalgorithm.VerifierForPublicKey(" + tAuth + ".Cert.PublicKey)#0"
	tSSMsg     = "call:signature.generateSignedMessage(param:vs.Signed,param:ver)"
	tSS        = "call:signature.decodeSignedSubset(param:vs.Signed)#0"
	tFind      = "call:(*signature.Verifier).findResponseHashes(param:v,call:(*url.URL).String(param:e.Request.URL))"
	tBMice     = "call:(bundle/version.Version).MiceEncoding(param:v.Version)"
	tBDigest   = "call:(http.Header).Get(param:e.Response.Header,call:(mice.Encoding).DigestHeaderName(" + tBMice + "))"
	tBDecoder  = "call:(mice.Encoding).NewDecoder(" + tBMice + ",call:bytes.NewBuffer(param:e.Response.Body)," + tBDigest + ",const:16384)"
	tHdrSha    = "call:(bundle.Response).HeaderSha256(param:e.Response)"
	tEncSubset = "call:(*signature.SignedSubset).Encode(param:s.SignedSubset)#0"
)

func checkC06(e *Env) {
	e.R.Explanation = "Decided (structural necessary conditions of C06): verifyVouchedSubset — authority index < len(authorities) before indexing, verifier built from that certificate, Verify(generateSignedMessage(vs.Signed, ver), vs.Sig) with err==nil and ok, decodeSignedSubset ok incl. its five-field completeness gate, auth-sha256 compared exactly with that certificate's SHA-256, the three time comparisons with exact operators, and the Authority handed back is the certificate the signature was checked with; NewVerifier verifies every vouched subset (no skip path, any failure aborts); VerifyExchange — a result is produced only after header-sha256 equality (exact), integrity id, digest header, MI decode with limit 16384 and ReadAll, and the payload is that ReadAll result; 'unsigned' (nil,nil) only when no verified subset lists the URL. Signer — authority index is read before the chain is appended, the bytes signed and the bytes stored are the same value, signer and verifier build the message with the same function, the signed subset covers its five fields, key tables of writer and reader agree, AddExchange refuses a second exchange per URL. Inherits the MI decoder typestate obligations of C15. " +
		"Not decided: round trip through write/read, cryptography, sequences of signers beyond the index rule."
	e.R.RuleText = "E2 must-pass-through with operand provenance; for-all loops with no-skip/no-early-exit rule; E7 key-table agreement; instruction-order rule for the authority index"
	// ERRUSE: no error of a data-fallible module call is lost on the way (shared rule, erruse.go)
	moduleErrorsConsumed(e, erruseEntries, 6, "bundle/signature.")

	vvs := e.fn("bundle/signature.verifyVouchedSubset")
	okOut := gate.Outcome{Kind: gate.ErrNil, Idx: 1}
	gs := []gate.Gate{
		gate.Cmp("S.index", "param:vs.Authority", token.LSS, "conv(len(param:authorities))"),
		gate.CallOK("S.alg", "signingalgorithm.VerifierForPublicKey", tAuth+".Cert.PublicKey"),
		gate.CallOK("S.sig.err", "invoke:signingalgorithm.Verifier.Verify", tSSVerif, tSSMsg, "param:vs.Sig"),
		gate.CallBool("S.sig.ok", "invoke:signingalgorithm.Verifier.Verify", true, tSSVerif, tSSMsg, "param:vs.Sig"),
		gate.CallOK("S.decode", "signature.decodeSignedSubset", "param:vs.Signed"),
		bytesEqual("S.authsha", "bytes.Equal(exact(ss.AuthSha256), exact(cert.CertSha256()))", tSS+".AuthSha256", "call:(*certurl.AugmentedCertificate).CertSha256("+tAuth+")"),
		// completeness gate of decodeSignedSubset (established through its summary)
		gate.Cmp("S.complete.validity-url", "alloc:signature.SignedSubset.ValidityUrl", token.NEQ, "const:nil"),
		gate.Cmp("S.complete.auth-sha256", "alloc:signature.SignedSubset.AuthSha256", token.NEQ, "const:nil"),
		gate.CallBool("S.complete.date", "(time.Time).IsZero", false, "alloc:signature.SignedSubset.Date"),
		gate.CallBool("S.complete.expires", "(time.Time).IsZero", false, "alloc:signature.SignedSubset.Expires"),
		gate.Cmp("S.complete.subset-hashes", "alloc:signature.SignedSubset.SubsetHashes", token.NEQ, "const:nil"),
		// ECDSA verifier
		gate.CallOK("E.asn1", "asn1.Unmarshal", "param:sig", "local:v"),
		either("E.rest", "len(rest) == 0",
			gate.Cmp("", "len(call:asn1.Unmarshal(param:sig,local:v)#0)", token.LEQ, "const:0"),
			gate.Cmp("", "len(call:asn1.Unmarshal(param:sig,local:v)#0)", token.EQL, "const:0")),
	}
	gs = append(gs, timeGates("S.t", "param:verificationTime", tSS+".Date", tSS+".Expires")...)
	e.requireGates("GATE", vvs, okOut, noCfg, gs...)
	e.requireStore("RESULT", vvs, "alloc:signature.VerifiedSignedSubset.Authority", tAuth, "the certificate the signature was verified with")
	e.requireStore("RESULT", vvs, "alloc:signature.VerifiedSignedSubset.SignedSubset", tSS, "the decoded signed subset whose bytes were verified")
	e.requireResult("RESULT", vvs, okOut, 0, "alloc:signature.VerifiedSignedSubset", "the verified subset built here")

	// NewVerifier: every vouched subset is verified, failure aborts
	nv := e.fn("bundle/signature.NewVerifier")
	forAllIterations(e, "FORALL", nv, "param:sigs.VouchedSubsets", noCfg,
		gate.CallOK("N.each", "signature.verifyVouchedSubset", "param:sigs.VouchedSubsets[rangeidx]", "param:sigs.Authorities", "param:verificationTime", "param:ver"))
	forAllIterations(e, "FORALL", nv, "param:sigs.VouchedSubsets", noCfg,
		gate.Gate{Key: "N.keep", Desc: "the verified subset is appended to the verifier's list",
			Instr: collects("VerifiedSignedSubset")})
	// the signing algorithm shared with signed exchanges: curve/hash pairing and a digest of this message only
	curveHashTable(e)
	e.R.Floor("FORALL", 2)

	// VerifyExchange: result only after all checks
	ve := e.fn("bundle/signature.(*Verifier).VerifyExchange")
	resOut := gate.Outcome{Kind: gate.NonNil, Idx: 0}
	e.requireGates("GATE", ve, resOut, noCfg,
		gate.Cmp("X.found", tFind+"#0", token.NEQ, "const:nil"),
		gate.Cmp("X.auth", tFind+"#1", token.NEQ, "const:nil"),
		gate.Cmp("X.novariants", "len("+tFind+"#0.VariantsValue)", token.EQL, "const:0"),
		gate.Cmp("X.onehash", "len("+tFind+"#0.Hashes)", token.EQL, "const:1"),
		gate.CallOK("X.hdrsha.ok", "(bundle.Response).HeaderSha256", "param:e.Response"),
		bytesEqual("X.hdrsha", "bytes.Equal(exact(HeaderSha256(e.Response)), exact(rh.HeaderSha256))", tHdrSha+"#0", tFind+"#0.Hashes[const:0].HeaderSha256"),
		either("X.integrity", "integrity identifier equals the version's",
			gate.Cmp("", "call:(mice.Encoding).IntegrityIdentifier("+tBMice+")", token.EQL, tFind+"#0.Hashes[const:0].PayloadIntegrityHeader")),
		gate.Cmp("X.digest", tBDigest, token.NEQ, `const:""`),
		gate.CallOK("X.mi.dec", "(mice.Encoding).NewDecoder", tBMice, "call:bytes.NewBuffer(param:e.Response.Body)", tBDigest, "const:16384"),
		either("X.mi.read", "ok(ReadAll(decoder))",
			gate.CallOK("", "io.ReadAll", tBDecoder+"#0"), gate.CallOK("", "io.ReadAll", tBDecoder+"#0")),
	)
	e.requireStore("RESULT", ve, "alloc:signature.VerifyExchangeResult.VerifiedPayload", "call:i*.ReadAll("+tBDecoder+"#0)#0", "the bytes read from the MI decoder over the response body")
	e.requireStore("RESULT", ve, "alloc:signature.VerifyExchangeResult.Authority", tFind+"#1", "the authority of the subset that lists the URL")
	// 'unsigned' only when not listed
	unsignedOnlyWhenUnlisted(e, ve)
	// findResponseHashes: returns the entry for exactly the requested URL together with that subset's authority
	frh := e.fn("bundle/signature.(*Verifier).findResponseHashes")
	e.requireGates("GATE", frh, gate.Outcome{Kind: gate.NonNil, Idx: 0}, noCfg,
		gate.BoolVal("F.lookup", "ok:param:v.VerifiedSignedSubsets[rangeidx].SignedSubset.SubsetHashes[param:requestUrl]", true))

	// Signer
	us := e.fn("bundle/signature.(*Signer).UpdateSignatures")
	sOut := gate.Outcome{Kind: gate.ErrNil, Idx: 1}
	e.requireGates("GATE", us, sOut, noCfg,
		gate.CallOK("U.encode", "(*signature.SignedSubset).Encode", "param:s.SignedSubset"),
		gate.CallOK("U.sign", "(*signature.Signer).sign", "param:s", tEncSubset),
	)
	e.requireStore("RESULT", us, "alloc:bundle.VouchedSubset.Signed", tEncSubset, "the encoded subset bytes that were passed to sign")
	e.requireStore("RESULT", us, "alloc:bundle.VouchedSubset.Sig", "call:(*signature.Signer).sign(param:s,"+tEncSubset+")#0", "the signature over those same bytes")
	e.requireStore("RESULT", us, "alloc:bundle.VouchedSubset.Authority", "conv(len(*.Authorities))", "the number of authorities")
	authorityIndexBeforeAppend(e, us)
	sg := e.fn("bundle/signature.(*Signer).sign")
	e.requireResult("RESULT", sg, gate.Outcome{Kind: gate.ErrNil, Idx: 1}, 0, "*invoke:signingalgorithm.SigningAlgorithm.Sign(*,call:signature.generateSignedMessage(param:signed,param:s.Version))*", "Sign over generateSignedMessage(signed, version)")
	gsm := e.fn("bundle/signature.generateSignedMessage")
	e.requireGates("COVER", gsm, gate.Outcome{Kind: gate.AnyReturn}, noCfg,
		gate.CallInstr("M.context", "(*bytes.Buffer).WriteString", "local:buf", "call:(bundle/version.Version).SignatureContextString(param:ver)"),
		gate.CallInstr("M.signed", "(*bytes.Buffer).Write", "local:buf", "param:signed"),
	)
	e.requireResult("COVER", gsm, gate.Outcome{Kind: gate.AnyReturn}, 0, "call:(*bytes.Buffer).Bytes(local:buf)", "the message buffer")

	enc := e.fn("bundle/signature.(*SignedSubset).Encode")
	e.requireGates("COVER", enc, gate.Outcome{Kind: gate.ErrNil, Idx: 1}, noCfg,
		closureEntry("SS.validity-url", "(*cbor.Encoder).EncodeTextString", "param:valueE", "call:(*url.URL).String(free:s.ValidityUrl)"),
		closureEntry("SS.auth-sha256", "(*cbor.Encoder).EncodeByteString", "param:valueE", "free:s.AuthSha256"),
		closureEntry("SS.date", "(*cbor.Encoder).EncodeInt", "param:valueE", "call:(time.Time).Unix(free:s.Date)"),
		closureEntry("SS.expires", "(*cbor.Encoder).EncodeInt", "param:valueE", "call:(time.Time).Unix(free:s.Expires)"),
		closureEntry("SS.subset-hashes", "(*cbor.Encoder).EncodeMap", "param:valueE", ""),
		gate.CallOK("SS.map", "(*cbor.Encoder).EncodeMap", "call:cbor.NewEncoder(local:buf)", ""),
	)
	e.requireResult("COVER", enc, gate.Outcome{Kind: gate.ErrNil, Idx: 1}, 0, "call:(*bytes.Buffer).Bytes(local:buf)", "the encoded map")

	ae := e.fn("bundle/signature.(*Signer).AddExchange")
	e.requireGates("GATE", ae, gate.Outcome{Kind: gate.ErrNil, Idx: 0}, noCfg,
		gate.CallOK("A.hdrsha", "(bundle.Response).HeaderSha256", "param:e.Response"),
		gate.BoolVal("A.nodup", "ok:param:s.SignedSubset.SubsetHashes[call:(*url.URL).String(param:e.Request.URL)]", false),
	)
	ns := e.fn("bundle/signature.NewSigner")
	e.requireGates("GATE", ns, gate.Outcome{Kind: gate.ErrNil, Idx: 1}, noCfg,
		gate.CallOK("NS.validate", "(certurl.CertChain).Validate", "param:certs"))
	// coverage decision: a URL counts as covered exactly when the leaf
	// certificate verifies for its host name (port and IPv6 brackets stripped),
	// and the tool signs every exchange so covered
	cs := e.fn("bundle/signature.(*Signer).CanSignForURL")
	e.requireGates("GATE", cs, gate.Outcome{Kind: gate.BoolTrue, Idx: 0}, noCfg,
		gate.CallOK("CS.hostname", "(*x509.Certificate).VerifyHostname", "param:s.Certs[const:0].Cert", "call:(*url.URL).Hostname(param:u)"))
	rejectionsListed(e, "REJECT", cs, gate.Outcome{Kind: gate.BoolTrue, Idx: 0}, noCfg, []gate.Gate{
		gate.CallOK("CS.hostname", "(*x509.Certificate).VerifyHostname", "param:s.Certs[const:0].Cert", "call:(*url.URL).Hostname(param:u)")},
		"the leaf certificate does not verify for the URL's host name")
	if as := e.fn("bundle/cmd/sign-bundle.addSignature"); as != nil {
		tEx := "param:b.Exchanges[rangeidx]"
		forAllIterations(e, "FORALL", as, "param:b.Exchanges", noCfg, either("AS.covered-signed", "the exchange is not covered, or it is added to the signed subset",
			gate.CallBool("", "(*signature.Signer).CanSignForURL", false, "param:signer", tEx+".Request.URL"),
			gate.CallOK("", "(*signature.Signer).AddExchange", "param:signer", tEx, "call:(*bundle.Exchange).AddPayloadIntegrity("+tEx+",param:b.Version,*)#0")))
		e.requireStore("RESULT", as, "param:b.Signatures", "call:(*signature.Signer).UpdateSignatures(param:signer,param:b.Signatures)#0", "the signatures section extended by this signer")
	}
	// the MI digest is the response's only Digest value: the bundle format joins
	// the values of one field with ",", so a second value would make the
	// re-read header unparsable for the verifier (seed C06-f)
	if api := e.fn("bundle.(*Exchange).AddPayloadIntegrity"); api != nil {
		tEnc := "call:(bundle/version.Version).MiceEncoding(param:ver)"
		o0 := gate.Outcome{Kind: gate.ErrNil, Idx: 1}
		e.requireGates("GATE", api, o0, noCfg,
			gate.Cmp("PI.no-digest-yet", `call:(http.Header).Get(param:e.Response.Header,const:"Digest")`, token.EQL, `const:""`),
			gate.CallOK("PI.encode", "(mice.Encoding).Encode", tEnc, "local:buf", "param:e.Response.Body", "param:recordSize"),
			gate.CallInstr("PI.content-encoding", "(http.Header).Add", "param:e.Response.Header", `const:"Content-Encoding"`, "call:(mice.Encoding).ContentEncoding("+tEnc+")"),
			gate.CallInstr("PI.digest", "(http.Header).Add", "param:e.Response.Header", `const:"Digest"`, "call:(mice.Encoding).Encode("+tEnc+",local:buf,param:e.Response.Body,param:recordSize)#0"),
		)
		e.requireStore("RESULT", api, "param:e.Response.Body", "call:(*bytes.Buffer).Bytes(local:buf)", "the MI-encoded payload")
	}
	// no pointer to one variable is collected over several iterations where
	// the signatures are read back and verified (seed C06-g: every vouched
	// subset pointing at the last one after a re-read)
	loopAlias(e, "ALIAS", e.fns("bundle.Read", "bundle/signature.NewVerifier", "bundle/signature.(*Signer).UpdateSignatures")...)
	e.R.Floor("FORALL", 3)
	// one subset hash / one verification per exchange and per vouched subset
	iterationsIndependent(e, "ITER", e.fns("bundle/cmd/sign-bundle.addSignature", "bundle/signature.(*Signer).UpdateSignatures", "bundle/signature.(*Signer).AddExchange",
		"bundle/signature.NewVerifier", "bundle/signature.(*Verifier).VerifyExchange", "bundle.newSignaturesSection", "bundle.parseSignaturesSection")...)
	e.R.Floor("ITER", 6)
	e.R.Floor("GATE", 31)
	e.R.Floor("RESULT", 9)
	e.R.Floor("COVER", 8)

	// key tables
	if dss := e.fn("bundle/signature.decodeSignedSubset"); dss != nil && enc != nil {
		e.tableEqual("signed-subset-keys", e.P.Pos(dss.Pos()),
			constCallArgs(enc, "(*cbor.Encoder).EncodeTextString", 1),
			switchConsts(dss, "call:(*cbor.Decoder).DecodeTextString(*)#0"),
			"keys written by SignedSubset.Encode", "keys recognised by decodeSignedSubset")
	}
	if w, r := e.fn("bundle.newSignaturesSection"), e.fn("bundle.parseSignaturesSection"); w != nil && r != nil {
		e.tableEqual("vouched-subset-keys", e.P.Pos(r.Pos()),
			constCallArgs(w, "(*cbor.Encoder).EncodeTextString", 1),
			switchConsts(r, "call:(*cbor.Decoder).DecodeTextString(*)#0"),
			"keys written by newSignaturesSection", "keys recognised by parseSignaturesSection")
	}
	e.R.Floor("TABLE", 2)
	c15Obligations(e, "C06 inherits")
}

// unsignedOnlyWhenUnlisted: the '(nil, nil)' return of VerifyExchange is
// reachable only over an edge asserting that no subset entry / authority was found.
func unsignedOnlyWhenUnlisted(e *Env, ve *ssa.Function) {
	if ve == nil {
		return
	}
	found := false
	for _, b := range ve.Blocks {
		r, ok := b.Instrs[len(b.Instrs)-1].(*ssa.Return)
		if !ok || len(r.Results) != 2 || prov.Of(r.Results[0]) != "const:nil" || prov.Of(r.Results[1]) != "const:nil" {
			continue
		}
		found = true
		ctx := gate.New(e.P, e.P.VTA())
		g := either("X.unsigned", "no subset entry or no authority for the URL",
			gate.Cmp("", tFind+"#0", token.EQL, "const:nil"), gate.Cmp("", tFind+"#1", token.EQL, "const:nil"))
		ctx.OnlyReturn = r
		ok2, w := ctx.Established(ve, gate.Outcome{Kind: gate.AnyReturn}, g)
		key := "bundle/signature.(*Verifier).VerifyExchange:unsigned-exit"
		if ok2 {
			e.R.OK("GATE", key, e.P.InstrPos(r), "'not signed' is reported only when no verified subset lists the URL")
		} else {
			e.R.Fail("GATE", key, e.P.InstrPos(r), "'not signed' (nil, nil) can be reported although a verified subset lists the URL", w...)
		}
	}
	if !found {
		e.R.Undecided("GATE", "bundle/signature.(*Verifier).VerifyExchange:unsigned-exit", e.P.Pos(ve.Pos()), "no 'return nil, nil' found")
	}
}

// authorityIndexBeforeAppend: the length that becomes VouchedSubset.Authority
// is read from signatures.Authorities before the chain is appended to it.
func authorityIndexBeforeAppend(e *Env, us *ssa.Function) {
	if us == nil {
		return
	}
	key := "bundle/signature.(*Signer).UpdateSignatures:authority-index-before-append"
	var lenLoad ssa.Instruction
	var appendStore ssa.Instruction
	for _, b := range us.Blocks {
		for _, in := range b.Instrs {
			if st, ok := in.(*ssa.Store); ok {
				if strings.HasSuffix(prov.Of(st.Addr), ".Authority") {
					// conv(len(load))
					v := st.Val
					if cv, ok := v.(*ssa.Convert); ok {
						v = cv.X
					}
					if c, ok := v.(*ssa.Call); ok && prov.CalleeName(&c.Call) == "builtin:len" {
						if ld, ok := c.Call.Args[0].(*ssa.UnOp); ok {
							lenLoad = ld
						}
					}
				}
				if fa, ok := st.Addr.(*ssa.FieldAddr); ok && strings.HasSuffix(prov.Of(fa), ".Authorities") {
					appendStore = in
				}
			}
		}
	}
	if lenLoad == nil || appendStore == nil {
		e.R.Undecided("ORDER", key, e.P.Pos(us.Pos()), "cannot identify the load of Authorities feeding the authority index and the store of the appended chain")
		return
	}
	// the whole chain is appended, unconditionally and in one piece: the signer's
	// leaf then sits exactly at the index read before (a chain appended
	// certificate by certificate under a condition - de-duplication - can leave
	// the leaf somewhere else, or nowhere)
	e.requireStore("RESULT", us, "*.Authorities", "append(*.Authorities,param:s.Certs)", "the authorities followed by the signer's whole chain")
	if before(lenLoad, appendStore) {
		e.R.OK("ORDER", key, e.P.InstrPos(lenLoad), "len(signatures.Authorities) is read before the signer's chain is appended")
	} else {
		e.R.Fail("ORDER", key, e.P.InstrPos(lenLoad), "the authority index is read after the chain was appended: it points past this signer's leaf certificate")
	}
}
