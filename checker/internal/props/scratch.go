package props

import "wpverif/internal/core"

func coreScratch(e *Env) *core.Report { return core.NewReport(e.R.Prop, e.R.Tier) }
