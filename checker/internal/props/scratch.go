package props

import "wpverif/internal/core"

func coreScratch(e *Env) *core.Report { return core.NewReport(e.R.Prop, e.R.Tier) }

// firstOf evaluates alternative formulations of one requirement, each in a
// scratch report, and records the obligations of the first alternative that
// is fully discharged (equivalent code shapes: a check inside the loop under
// i == 0, or on element 0 in front of a loop that starts at 1).  If none is,
// the first alternative's obligations are recorded, with its failures.
func firstOf(e *Env, alts ...func(e *Env)) {
	var firstRep *core.Report
	for _, alt := range alts {
		e2 := *e
		e2.R = coreScratch(e)
		alt(&e2)
		if firstRep == nil {
			firstRep = e2.R
		}
		ok := len(e2.R.Obls) > 0
		for _, o := range e2.R.Obls {
			if o.Status != core.Discharged {
				ok = false
			}
		}
		if ok {
			e.R.Obls = append(e.R.Obls, e2.R.Obls...)
			return
		}
	}
	if firstRep != nil {
		e.R.Obls = append(e.R.Obls, firstRep.Obls...)
	}
}
