package props

import (
	"fmt"
	"go/token"
	"go/types"
	"strings"

	"golang.org/x/tools/go/ssa"

	"wpverif/internal/gate"
	"wpverif/internal/load"
	"wpverif/internal/prov"
	"wpverif/internal/untrusted"
)

func init() { register("C13", checkC13) }

func checkC13(e *Env) {
	e.R.Explanation = "Decided (structural necessary conditions of C13): (a) the three tables of addinfo.go, evaluated for all 32 additional-information values and all 7 classes, equal RFC 8949's and agree with the encoder's thresholds (lower limit of a head size = first value the encoder gives that size) and the decoder's follow-byte counts, so everything the encoder emits in the subset has an accepted head and no non-shortest head is accepted; (b) the uint64->int conversions of declared string lengths and item counts are dominated by comparisons with len(input) (E6 U1/U2); (c) progress: every length returned on a successful path is >= 1 (sign analysis to a greatest fixpoint over the mutual recursion), the top-level cursor advances by such a length, every call cycle passes through a call on a strict suffix input[k:], k >= 1, and the element loops count a loop-invariant bound by +1 => Deterministic terminates on every input; (d) the element loops run once per declared item with every iteration gated by start < len(input) (else the pinned panic) and by the recursive check's error, without early successful exit; (e) on key positions only bytes.Compare(previous key, key) < 0 continues, == 0 and > 0 are errors. " +
		"Not decided: exact agreement with RFC 8949 section 4.2 on all byte strings; panics on truncated heads (input[1:] too short) count as 'not accepted' (the suite pins that reading) and are not reported."
	e.R.RuleText = "E7 exhaustive table evaluation; E6 U1/U2 restricted to deterministic.go; U6 sign analysis {any, >=0, >=1} with return summaries (greatest fixpoint); recursion-shrink rule on the call-graph SCC; E2 for-all loop gates, parity-specialised"
	// COPYLEN: no tolerant copy of input bytes (shared rule, copylen.go)
	copiesAreExact(e, 0, "internal/cbor.")
	lowest := encoderHeadTableQuiet(e)
	dec := decoderHeadTableQuiet(e)
	class, length, limit := addInfoTables(e)
	headTablesAgree(e, lowest, dec, class, length, limit)
	// the head check itself: reserved/indefinite refused, value >= lower limit
	uid := e.fn("internal/cbor.unsignedIntegerDeterministic")
	uo := gate.Outcome{Kind: gate.ErrNil, Idx: 2}
	tInfo := "call:cbor.convertToAdditionalInfo(param:input[const:0])"
	e.requireGates("GATE", uid, uo, noCfg,
		gate.Cmp("H.not-indefinite", tInfo, token.NEQ, "const:6"),
		gate.Cmp("H.not-reserved", tInfo, token.NEQ, "const:5"),
		gate.Cmp("H.shortest", "call:cbor.getUnsignedIntegerValue(param:input,"+tInfo+")", token.GEQ, "call:(cbor.AdditionalInfo).getAdditionalInfoValueLowerLimit("+tInfo+")"),
	)
	e.requireResult("RESULT", uid, uo, 0, "call:(cbor.AdditionalInfo).getAdditionalInfoLength("+tInfo+")", "the follow-byte count of the head's class")
	e.requireResult("RESULT", uid, uo, 1, "call:cbor.getUnsignedIntegerValue(param:input,"+tInfo+")", "the head's argument")

	scope := parserScope(e, []string{"internal/cbor.Deterministic"})
	a := runUntrusted(e, scope, inDeterministic, func(*ssa.Function) bool { return true })
	e.R.Floor("U1", 4)
	e.R.Floor("U2", 2)

	progress(e, a, scope)

	// (d) element loops
	arr := e.fn("internal/cbor.arrayDeterministic")
	mp := e.fn("internal/cbor.mapDeterministic")
	inBounds := gate.Cmp("L.in-bounds", "*", token.LSS, "len(param:input)")
	rec := gate.CallOK("L.item-ok", "cbor.deterministicRec", "slice(param:input,*,)")
	countedLoop(e, "FORALL", arr, "conv(call:cbor.unsignedIntegerDeterministic(param:input)#1)", inBounds, rec)
	countedLoop(e, "FORALL", mp, "(conv(call:cbor.unsignedIntegerDeterministic(param:input)#1) * const:2)", inBounds, rec)
	// top-level loop
	if d := e.fn("internal/cbor.Deterministic"); d != nil {
		var loops [][2]*ssa.BasicBlock
		for _, b := range d.Blocks {
			if ifi, ok := b.Instrs[len(b.Instrs)-1].(*ssa.If); ok {
				if c, ok := ifi.Cond.(*ssa.BinOp); ok && c.Op == token.LSS && prov.Of(c.Y) == "len(param:input)" {
					loops = append(loops, [2]*ssa.BasicBlock{b, b.Succs[0]})
				}
			}
		}
		if len(loops) != 1 {
			e.R.Undecided("FORALL", "internal/cbor.Deterministic:top-loop", e.P.Pos(d.Pos()), "cannot identify the loop 'for index < len(input)'")
		} else {
			forAllIterationsAt(e, "FORALL", d, loops[0], "top-loop", noCfg, gate.CallOK("L.item-ok", "cbor.deterministicRec", "slice(param:input,*,)"))
		}
	}
	// (e) key order on key positions
	if mp != nil {
		parity := gcfg{name: "key-position", assume: []gate.Assumption{{ProvPat: "(phi((↺ + const:1)|const:0) % const:2)", Value: "0"}, {ProvPat: "(phi((↺ + const:1)|const:0) & const:1)", Value: "0"}}}
		tCmp := "call:bytes.Compare(phi({alloc:[0]byte|const:nil}|*),slice(param:input,*))"
		for _, b := range mp.Blocks {
			if ifi, ok := b.Instrs[len(b.Instrs)-1].(*ssa.If); ok {
				if c, ok := ifi.Cond.(*ssa.BinOp); ok && c.Op == token.LSS && strings.HasPrefix(prov.Of(c.Y), "(conv(call:cbor.unsignedIntegerDeterministic(") {
					l := [2]*ssa.BasicBlock{b, b.Succs[0]}
					forAllIterationsAt(e, "FORALL", mp, l, "map-loop", parity,
						either("K.not-equal", "bytes.Compare(previous key, key) != 0 (duplicate keys refused)",
							gate.Cmp("", tCmp, token.NEQ, "const:0"), gate.Cmp("", tCmp, token.LSS, "const:0")))
					forAllIterationsAt(e, "FORALL", mp, l, "map-loop", parity,
						either("K.not-greater", "bytes.Compare(previous key, key) <= 0 (descending keys refused)",
							gate.Cmp("", tCmp, token.LEQ, "const:0"), gate.Cmp("", tCmp, token.LSS, "const:0")))
				}
			}
		}
		keyCompareOperands(e, mp)
	}
	// (f) a string item is accepted only if head + content end before len(input)
	// (content of exactly len(input)-1-head bytes): "<" on the sum, not "<="
	if ts := e.fn("internal/cbor.textOrByteStringDeterministic"); ts != nil {
		tU := "call:cbor.unsignedIntegerDeterministic(param:input)"
		e.requireGates("GATE", ts, gate.Outcome{Kind: gate.ErrNil, Idx: 1}, noCfg,
			gate.CallOK("S.head", "cbor.unsignedIntegerDeterministic", "param:input"),
			gate.Cmp("S.length-in-input", tU+"#1", token.LSS, "conv(len(param:input))"),
			gate.Cmp("S.end-in-input", "("+tU+"#0 + conv("+tU+"#1))", token.LSS, "len(param:input)"))
		e.requireResult("RESULT", ts, gate.Outcome{Kind: gate.ErrNil, Idx: 1}, 0, "("+tU+"#0 + conv("+tU+"#1))", "head length + declared content length")
	}
	e.R.Floor("TABLE", 40)
	e.R.Floor("FORALL", 6)
	e.R.Floor("PROGRESS", 4)
}

// keyCompareOperands: the key compared is input[start : start+itemLength] of
// the item just checked, and it becomes the next "previous key".
func keyCompareOperands(e *Env, mp *ssa.Function) {
	for _, b := range mp.Blocks {
		for _, in := range b.Instrs {
			c, ok := in.(*ssa.Call)
			if !ok || prov.CalleeName(&c.Call) != "bytes.Compare" {
				continue
			}
			key := "internal/cbor.mapDeterministic:key-operands"
			sl, ok := c.Call.Args[1].(*ssa.Slice)
			if !ok || sl.Low == nil || sl.High == nil {
				e.R.Fail("GATE", key, e.P.InstrPos(in), "the key compared is not a sub-slice input[start:start+itemLength]")
				return
			}
			hi, ok := sl.High.(*ssa.BinOp)
			okHi := ok && hi.Op == token.ADD && (hi.X == sl.Low || hi.Y == sl.Low) && strings.Contains(prov.Of(hi), "call:cbor.deterministicRec(")
			okPrev := false
			var walkPhi func(v ssa.Value, d int)
			seenPhi := map[ssa.Value]bool{}
			walkPhi = func(v ssa.Value, d int) {
				if d > 6 || seenPhi[v] {
					return
				}
				seenPhi[v] = true
				if v == ssa.Value(sl) {
					okPrev = true
					return
				}
				if ph, ok := v.(*ssa.Phi); ok {
					for _, ed := range ph.Edges {
						walkPhi(ed, d+1)
					}
				}
			}
			walkPhi(c.Call.Args[0], 0)
			if okHi && okPrev && prov.Of(sl.X) == "param:input" {
				e.R.OK("GATE", key, e.P.InstrPos(in), "compares the previous key with input[start:start+itemLength], the encoded bytes of the item just checked, which becomes the next previous key")
			} else {
				e.R.Fail("GATE", key, e.P.InstrPos(in), "key comparison operands are not (previous encoded key, encoded bytes of this key)")
			}
			return
		}
	}
	e.R.Fail("GATE", "internal/cbor.mapDeterministic:key-operands", e.P.Pos(mp.Pos()), "no bytes.Compare on keys found")
}

// ---------------------------------------------------------------- U6

type lbClass int

const (
	lbAny lbClass = iota
	lbNonNeg
	lbPos
)

func (c lbClass) String() string { return [...]string{"any", ">=0", ">=1"}[c] }

type progressCtx struct {
	e    *Env
	a    *untrusted.Analysis
	ret  map[*ssa.Function]lbClass
	phis map[*ssa.Phi]lbClass
}

func minLB(a, b lbClass) lbClass {
	if a < b {
		return a
	}
	return b
}

func (p *progressCtx) lb(v ssa.Value, at *ssa.BasicBlock, depth int) lbClass {
	if depth > 20 {
		return lbAny
	}
	switch x := v.(type) {
	case *ssa.Const:
		if x.Value == nil {
			return lbAny
		}
		n := x.Int64()
		switch {
		case n > 0:
			return lbPos
		case n == 0:
			return lbNonNeg
		}
		return lbAny
	case *ssa.BinOp:
		l, r := p.lb(x.X, at, depth+1), p.lb(x.Y, at, depth+1)
		switch x.Op {
		case token.ADD:
			if l >= lbNonNeg && r >= lbNonNeg {
				if l == lbPos || r == lbPos {
					return lbPos
				}
				return lbNonNeg
			}
		case token.MUL:
			if l == lbPos && r == lbPos {
				return lbPos
			}
			if l >= lbNonNeg && r >= lbNonNeg {
				return lbNonNeg
			}
		}
		return lbAny
	case *ssa.Convert:
		from, ok := x.X.Type().Underlying().(*types.Basic)
		if !ok {
			return lbAny
		}
		if from.Info()&types.IsUnsigned != 0 {
			// non-negative iff the unsigned value fits the signed target
			// (the operand is an SSA value: what is known about it where the
			// converted value is used holds for the conversion as well)
			for _, where := range []*ssa.BasicBlock{x.Block(), at} {
				if where == nil {
					continue
				}
				ub := p.a.Upper(x.X, where)
				if ub.Kind == untrusted.LenB {
					return lbNonNeg
				}
				if ub.Kind == untrusted.ConstB && ub.C <= 1<<31-1 {
					return lbNonNeg
				}
			}
			return lbAny
		}
		return p.lb(x.X, at, depth+1)
	case *ssa.Call:
		if _, ok := x.Call.Value.(*ssa.Builtin); ok && (prov.CalleeName(&x.Call) == "builtin:len" || prov.CalleeName(&x.Call) == "builtin:cap") {
			return lbNonNeg
		}
		if sc := x.Call.StaticCallee(); sc != nil {
			if c, ok := p.ret[sc]; ok {
				return c
			}
		}
		return lbAny
	case *ssa.Extract:
		if c, ok := x.Tuple.(*ssa.Call); ok && x.Index == 0 {
			if sc := c.Call.StaticCallee(); sc != nil {
				if cl, ok := p.ret[sc]; ok {
					// the summary describes successful returns only: the use must be
					// dominated by the err == nil edge of this call
					if dominatedBy(at, func(f gate.Fact) bool { return f.Kind == gate.FErrNil && f.Call == c }) {
						return cl
					}
				}
			}
		}
		return lbAny
	case *ssa.Phi:
		if c, ok := p.phis[x]; ok {
			return c
		}
		p.phis[x] = lbPos // optimistic; iterated by the caller
		res := lbPos
		for i, ed := range x.Edges {
			res = minLB(res, p.lb(ed, x.Block().Preds[i], depth+1))
		}
		p.phis[x] = res
		return res
	}
	return lbAny
}

func progress(e *Env, a *untrusted.Analysis, scope map[*ssa.Function]bool) {
	p := &progressCtx{e: e, a: a, ret: map[*ssa.Function]lbClass{}, phis: map[*ssa.Phi]lbClass{}}
	var fns []*ssa.Function
	for _, fn := range sortedFuncs(scope) {
		if !inDeterministic(fn) {
			continue
		}
		res := fn.Signature.Results()
		if res.Len() == 0 {
			continue
		}
		if b, ok := res.At(0).Type().Underlying().(*types.Basic); ok && b.Kind() == types.Int {
			fns = append(fns, fn)
			p.ret[fn] = lbPos
		}
	}
	ctx := gate.New(e.P, e.P.VTA())
	for iter := 0; iter < 10; iter++ {
		changed := false
		p.phis = map[*ssa.Phi]lbClass{}
		// phis to a local fixpoint
		for k := 0; k < 4; k++ {
			for _, fn := range fns {
				for _, b := range fn.Blocks {
					for _, in := range b.Instrs {
						if ph, ok := in.(*ssa.Phi); ok {
							old, had := p.phis[ph]
							delete(p.phis, ph)
							if had {
								p.phis[ph] = old
							}
							res := lbPos
							p.phis[ph] = func() lbClass {
								if had {
									return old
								}
								return lbPos
							}()
							for i, ed := range ph.Edges {
								res = minLB(res, p.lb(ed, b.Preds[i], 0))
							}
							p.phis[ph] = res
						}
					}
				}
			}
		}
		for _, fn := range fns {
			cl := lbPos
			for _, r := range ctx.SuccessReturns(fn, gate.DefaultOutcome(fn)) {
				// "return f(x)": value and error are the two results of one call, so
				// a successful return is a successful return of f
				if ex0, ok := r.Results[0].(*ssa.Extract); ok && ex0.Index == 0 && len(r.Results) >= 2 {
					if exE, ok := r.Results[len(r.Results)-1].(*ssa.Extract); ok && exE.Tuple == ex0.Tuple && exE.Index == len(r.Results)-1 {
						if c, ok := ex0.Tuple.(*ssa.Call); ok {
							if sc := c.Call.StaticCallee(); sc != nil {
								if sum, ok := p.ret[sc]; ok {
									cl = minLB(cl, sum)
									continue
								}
							}
						}
					}
				}
				cl = minLB(cl, p.lb(r.Results[0], r.Block(), 0))
			}
			if cl != p.ret[fn] {
				p.ret[fn] = cl
				changed = true
			}
		}
		if !changed {
			break
		}
	}
	var summary []string
	for _, fn := range fns {
		summary = append(summary, prov.FuncString(fn)+" returns "+p.ret[fn].String())
	}
	e.R.Extra["length_summaries"] = summary

	// U6.1: the top-level cursor advances by >= 1
	if d := e.fn("internal/cbor.Deterministic"); d != nil {
		found := false
		for _, b := range d.Blocks {
			for _, in := range b.Instrs {
				ph, ok := in.(*ssa.Phi)
				if !ok || prov.CanonLocal(ph.Parent(), ph.Comment) != "index" {
					continue
				}
				found = true
				for i, ed := range ph.Edges {
					if !b.Dominates(b.Preds[i]) {
						continue // entry edge
					}
					key := "internal/cbor.Deterministic:cursor-advance"
					bo, ok := ed.(*ssa.BinOp)
					if !ok || bo.Op != token.ADD || (bo.X != ssa.Value(ph) && bo.Y != ssa.Value(ph)) {
						e.R.Fail("PROGRESS", key, e.P.Pos(d.Pos()), "the cursor is not advanced by addition of a computed length")
						continue
					}
					inc := bo.Y
					if bo.Y == ssa.Value(ph) {
						inc = bo.X
					}
					if cl := p.lb(inc, b.Preds[i], 0); cl == lbPos {
						e.R.OK("PROGRESS", key, e.P.InstrPos(bo), "the cursor advances by a length that is >= 1 on every successful path, and len(input) is fixed: the loop terminates")
					} else {
						e.R.Fail("PROGRESS", key, e.P.InstrPos(bo), "the cursor advances by a length whose lower bound is only '"+cl.String()+"': for some input it does not move forward and Deterministic never returns",
							summary...)
					}
				}
			}
		}
		if !found {
			e.R.Undecided("PROGRESS", "internal/cbor.Deterministic:cursor-advance", e.P.Pos(d.Pos()), "cursor variable 'index' not found")
		}
	}
	for _, fn := range fns {
		if n := load.FuncName(fn); strings.HasSuffix(n, "deterministicRec") || strings.HasSuffix(n, "arrayDeterministic") || strings.HasSuffix(n, "mapDeterministic") {
			key := n + ":length>=1"
			if p.ret[fn] == lbPos {
				e.R.OK("PROGRESS", key, e.P.Pos(fn.Pos()), "every successful return yields a length >= 1")
			} else {
				e.R.Fail("PROGRESS", key, e.P.Pos(fn.Pos()), "a successful return may yield a length that is '"+p.ret[fn].String()+"'", summary...)
			}
		}
	}
	// U6.2: every call cycle passes a strictly shrinking call
	inSet := map[*ssa.Function]bool{}
	for _, fn := range fns {
		inSet[fn] = true
	}
	nonShrinking := map[*ssa.Function][]*ssa.Function{}
	for _, fn := range fns {
		for _, b := range fn.Blocks {
			for _, in := range b.Instrs {
				c, ok := in.(*ssa.Call)
				if !ok {
					continue
				}
				sc := c.Call.StaticCallee()
				if sc == nil || !inSet[sc] || len(c.Call.Args) == 0 {
					continue
				}
				shr := false
				if sl, ok := c.Call.Args[0].(*ssa.Slice); ok && sl.High == nil && sl.Low != nil {
					if p.lb(sl.Low, b, 0) == lbPos {
						shr = true
					}
				}
				if !shr {
					nonShrinking[fn] = append(nonShrinking[fn], sc)
				}
			}
		}
	}
	cyc := ""
	for _, fn := range fns {
		seen := map[*ssa.Function]bool{}
		stack := append([]*ssa.Function{}, nonShrinking[fn]...)
		for len(stack) > 0 {
			f := stack[len(stack)-1]
			stack = stack[:len(stack)-1]
			if f == fn {
				cyc = load.FuncName(fn)
				break
			}
			if seen[f] {
				continue
			}
			seen[f] = true
			stack = append(stack, nonShrinking[f]...)
		}
	}
	if cyc == "" {
		e.R.OK("PROGRESS", "internal/cbor:recursion-shrinks", "-", "every call cycle among the deterministic-check functions passes through a call on a strict suffix input[k:], k >= 1: recursion depth is bounded by len(input)")
	} else {
		e.R.Fail("PROGRESS", "internal/cbor:recursion-shrinks", "-", "a call cycle through "+cyc+" never shrinks its input: unbounded recursion")
	}
	// element loops: induction by +1 against a loop-invariant bound
	for _, fn := range fns {
		for _, b := range fn.Blocks {
			ifi, ok := b.Instrs[len(b.Instrs)-1].(*ssa.If)
			if !ok {
				continue
			}
			c, ok := ifi.Cond.(*ssa.BinOp)
			if !ok || c.Op != token.LSS {
				continue
			}
			ph, ok := c.X.(*ssa.Phi)
			if !ok || ph.Block() != b || !a.T[c.Y] {
				continue
			}
			key := fmt.Sprintf("%s:counted-loop(%s)", load.FuncName(fn), prov.CanonLocal(fn, ph.Comment))
			okInd := false
			for i, ed := range ph.Edges {
				if b.Dominates(b.Preds[i]) {
					if bo, ok := ed.(*ssa.BinOp); ok && bo.Op == token.ADD && bo.X == ssa.Value(ph) && prov.Of(bo.Y) == "const:1" {
						okInd = true
					}
				}
			}
			inv := loopInvariant(c.Y, b, 0)
			if okInd && inv {
				e.R.OK("PROGRESS", key, e.P.InstrPos(ifi), "counts up by 1 against a bound computed before the loop: terminates")
			} else {
				e.R.Fail("PROGRESS", key, e.P.InstrPos(ifi), "loop over an input-declared count is not a simple +1 induction against a loop-invariant bound")
			}
		}
	}
}

// loopInvariant: v is computed from values defined outside the loop headed by
// h through pure operators only.
func loopInvariant(v ssa.Value, h *ssa.BasicBlock, d int) bool {
	if d > 6 {
		return false
	}
	switch x := v.(type) {
	case *ssa.Const, *ssa.Parameter:
		return true
	case *ssa.Convert:
		return loopInvariant(x.X, h, d+1)
	case *ssa.BinOp:
		return loopInvariant(x.X, h, d+1) && loopInvariant(x.Y, h, d+1)
	case ssa.Instruction:
		return !h.Dominates(x.Block())
	}
	return false
}
