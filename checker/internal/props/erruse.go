package props

import (
	"go/constant"
	"go/types"
	"unicode/utf8"
	"strings"

	"golang.org/x/tools/go/ssa"

	"wpverif/internal/load"
	"wpverif/internal/prov"
)

// moduleErrorsConsumed is rule ERRUSE: in every library function reachable
// from the given entry points whose name starts with one of the prefixes
// (closures included), the error returned by a call to a function of this
// module is returned, or tested against nil with the failing edge leading
// only to failing returns or panics.  A closure without an error result may
// park the error in a captured variable if the function that creates the
// closure examines that variable before it returns or creates the next
// closure.  Destination writes are left to ERRPROP (C19), which applies the
// stricter prefix rule to them.
//
// Why it is a necessary condition: a serializer that loses the error of a
// data-dependent encoding step (text that is not UTF-8, a length that does
// not fit its field) goes on and returns nil with an output that lacks that
// item.
func moduleErrorsConsumed(e *Env, entries []string, floor int, prefixes ...string) {
	a, scope := destAnalysis(e, entries)
	in := map[*ssa.Function]bool{}
	for f := range scope {
		if hasPrefixAny(load.FuncName(f), prefixes...) {
			in[f] = true
		}
	}
	mod := func(fn *ssa.Function, ci ssa.CallInstruction) bool {
		if a.IsDestWrite(ci) {
			return false
		}
		cc := ci.Common()
		if cc.IsInvoke() {
			nt, ok := cc.Value.Type().(*types.Named)
			return ok && nt.Obj().Pkg() != nil && strings.HasPrefix(nt.Obj().Pkg().Path(), "github.com/WICG/webpackage/")
		}
		callee := cc.StaticCallee()
		if callee == nil || !e.P.IsLibrary(callee) || !a.DataFallible(callee) {
			return false
		}
		// a constant text is valid UTF-8 or not once and for all — also when it
		// reaches the call through a parameter or a captured variable of a
		// helper all of whose callers pass constants
		if prov.CalleeName(cc) == "(*cbor.Encoder).EncodeTextString" && len(cc.Args) == 2 && constValidText(e, cc.Args[1], 0) {
			return false
		}
		return true
	}
	n := 0
	onPurpose := map[string]int{}
	for _, s := range a.SitesWhere(in, mod) {
		n++
		if !s.OK && s.How == "error result is discarded" {
			// a helper the rule tables do not know discards on behalf of the known
			// functions that call it (knownCallers resolves closures to their parent)
			done := false
			for _, owner := range knownCallers(e, s.Fn, 0) {
				k := owner + " -> " + prov.CalleeName(s.Call.Common())
				if d, ok := discardedOnPurpose[k]; ok && onPurpose[k] < d.n {
					onPurpose[k]++
					e.R.OK("ERRUSE", s.Key, s.Pos, "discarded on purpose (frozen by function, callee and count): "+d.why)
					done = true
					break
				}
			}
			if done {
				continue
			}
		}
		if s.OK {
			e.R.OK("ERRUSE", s.Key, s.Pos, s.How)
		} else {
			e.R.Fail("ERRUSE", s.Key, s.Pos, "error of a module call is lost: "+s.How,
				"callee "+prov.CalleeName(s.Call.Common()), "in "+load.FuncName(s.Fn))
		}
	}
	e.R.Floor("ERRUSE", floor)
}

// discardedOnPurpose: the data-fallible module calls whose error today's tree
// discards deliberately, by outermost function, callee and count (a rename of
// a local or a moved line does not matter; one more discarded call does).
var discardedOnPurpose = map[string]struct {
	n   int
	why string
}{
	"signedexchange.serializeSignedMessage -> bigendian.EncodeBytesUint": {5,
		"8-byte fields of the b2/b3 signed message: the call fails only for a negative value; three operands are lengths, and date/expires of an accepted signature are positive (date <= now <= expires, expires - date <= 7 days are gates of C09)"},
	"signedexchange.serializeSignedMessage -> (*signedexchange.Exchange).encodeExchangeHeaders": {1,
		"b1 signed message: the header maps are built from http.Header maps whose keys were checked by the reader/constructor; the same call is checked where the bytes go to a file (Exchange.Write, C19)"},
	"bundle/signature.(*SignedSubset).Encode -> (*cbor.Encoder).EncodeTextString": {3,
		"validity URL, subset URL keys and integrity header names: strings produced by url.URL.String() and by the signer itself; weak spot recorded, no failing input through the public signer API is known"},
	"bundle/signature.(*SignedSubset).Encode -> (*cbor.Encoder).EncodeMap": {1,
		"subset-hashes map built from a Go map keyed by URL string: keys are distinct, so the duplicate-key error cannot occur"},
}

// erruseEntries: serializers and signers whose call trees ERRUSE covers.
var erruseEntries = append(append([]string{}, serializerEntries...),
	"integrityblock.(*IntegrityBlock).CborBytes",
	"integrityblock.GenerateDataToBeSigned",
	"integrityblock.(*IntegrityBlockSigner).SignAndAddNewSignature",
	"bundle/signature.(*SignedSubset).Encode",
	"bundle/signature.(*Signer).UpdateSignatures",
	"bundle/signature.(*Signer).AddExchange",
	"signedexchange.(*Signer).signatureHeaderValue",
)

// constValidText: v is a constant valid UTF-8 string, or a parameter / free
// variable that receives only such constants from every in-module caller.
func constValidText(e *Env, v ssa.Value, depth int) bool {
	if depth > 8 {
		return false
	}
	switch x := v.(type) {
	case *ssa.Const:
		return x.Value != nil && x.Value.Kind() == constant.String && utf8.ValidString(constant.StringVal(x.Value))
	case *ssa.Parameter:
		fn := x.Parent()
		idx := -1
		for i, p := range fn.Params {
			if p == x {
				idx = i
			}
		}
		if idx < 0 || exported(fn) {
			return false
		}
		n := 0
		for _, caller := range e.P.Funcs {
			for _, b := range caller.Blocks {
				for _, in := range b.Instrs {
					ci, ok := in.(ssa.CallInstruction)
					if !ok || ci.Common().StaticCallee() != fn {
						continue
					}
					n++
					if idx >= len(ci.Common().Args) || !constValidText(e, ci.Common().Args[idx], depth+1) {
						return false
					}
				}
			}
		}
		return n > 0
	case *ssa.FreeVar:
		fn := x.Parent()
		idx := -1
		for i, fv := range fn.FreeVars {
			if fv == x {
				idx = i
			}
		}
		parent := fn.Parent()
		if idx < 0 || parent == nil {
			return false
		}
		n := 0
		for _, b := range parent.Blocks {
			for _, in := range b.Instrs {
				if mc, ok := in.(*ssa.MakeClosure); ok && mc.Fn == ssa.Value(fn) {
					n++
					if !constValidText(e, mc.Bindings[idx], depth+1) {
						return false
					}
				}
			}
		}
		return n > 0
	case *ssa.UnOp:
		// load of a captured cell that is stored once with a constant-like value
		if al, ok := x.X.(*ssa.Alloc); ok {
			var val ssa.Value
			stores := 0
			for _, ref := range *al.Referrers() {
				if st, ok := ref.(*ssa.Store); ok && st.Addr == ssa.Value(al) {
					stores++
					val = st.Val
				}
			}
			return stores == 1 && constValidText(e, val, depth+1)
		}
		if fv, ok := x.X.(*ssa.FreeVar); ok {
			return constValidText(e, fv, depth+1)
		}
	case *ssa.Alloc:
		var val ssa.Value
		stores := 0
		for _, ref := range *x.Referrers() {
			if st, ok := ref.(*ssa.Store); ok && st.Addr == ssa.Value(x) {
				stores++
				val = st.Val
			}
		}
		return stores == 1 && constValidText(e, val, depth+1)
	}
	return false
}
