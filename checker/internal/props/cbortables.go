package props

import (
	"fmt"
	"go/constant"
	"go/token"
	"sort"
	"strconv"
	"strings"

	"golang.org/x/tools/go/ssa"

	"wpverif/internal/gate"
	"wpverif/internal/prov"
)

// RFC 8949 section 3 / 4.2.1: value threshold -> (additional information, follow bytes).
var specHeads = []struct {
	below   string // exclusive upper bound of the class ("" = none)
	ai      string // "direct" or the constant
	nfollow int
}{
	{"24", "direct", 0}, {"256", "24", 1}, {"65536", "25", 2}, {"4294967296", "26", 4}, {"", "27", 8},
}

const tAI = "(call:(*cbor.Decoder).ReadByte(param:d)#0 & const:31)"

func assumeVal(pat string, v string) gcfg {
	return gcfg{name: pat + "=" + v, assume: []gate.Assumption{{ProvPat: pat, Value: v}}}
}

// constsComparedWith: the integer constants a value matching pat is compared with in fn.
func constsComparedWith(fn *ssa.Function, pat string) []string {
	set := map[string]bool{}
	for _, b := range fn.Blocks {
		ifi, ok := b.Instrs[len(b.Instrs)-1].(*ssa.If)
		if !ok {
			continue
		}
		for _, f := range gate.EdgeFacts(ifi.Cond, true) {
			if f.Kind != gate.FCmp {
				continue
			}
			if k, ok := f.Y.(*ssa.Const); ok && prov.Match(pat, prov.Of(f.X)) {
				set[strings.TrimPrefix(prov.Of(k), "const:")] = true
			}
		}
	}
	return sortedKeys(set)
}

func dec1(s string) string {
	n, err := strconv.ParseUint(s, 10, 64)
	if err != nil || n == 0 {
		return "0"
	}
	return strconv.FormatUint(n-1, 10)
}

// encoderHeadTable (C11a, shared with C04/C13): the head-size ladder of
// encodeTypedUint equals RFC 8949's, with strict '<' at 24, 2^8, 2^16, 2^32.
func encoderHeadTable(e *Env) map[int]string {
	fn := e.fn("internal/cbor.(*Encoder).encodeTypedUint")
	lowest := map[int]string{}
	if fn == nil {
		return lowest
	}
	// one representative per interval induced by the code's own thresholds and the specification's
	pts := map[string]bool{"0": true, "18446744073709551615": true}
	for _, c := range append(constsComparedWith(fn, "param:n"), "24", "256", "65536", "4294967296") {
		pts[c] = true
		pts[dec1(c)] = true
	}
	var samples []string
	for p := range pts {
		samples = append(samples, p)
	}
	sort.Slice(samples, func(i, j int) bool {
		a, _ := strconv.ParseUint(samples[i], 10, 64)
		b, _ := strconv.ParseUint(samples[j], 10, 64)
		return a < b
	})
	for _, n := range samples {
		nv, _ := strconv.ParseUint(n, 10, 64)
		want := specHeads[len(specHeads)-1]
		for _, h := range specHeads {
			if h.below == "" {
				continue
			}
			lim, _ := strconv.ParseUint(h.below, 10, 64)
			if nv < lim {
				want = h
				break
			}
		}
		ctx := gate.New(e.P, e.P.VTA(), assumeVal("param:n", n).assume...)
		ai := ctx.PhiUnder(fn, "ai")
		nf := ctx.PhiUnder(fn, "nfollow")
		wantAI := "const:" + want.ai
		if want.ai == "direct" {
			wantAI = "conv(param:n)"
		}
		key := "encodeTypedUint:head(n=" + n + ")"
		// the first value the code (right or wrong) gives k follow bytes: what
		// the deterministic checker's lower limits must agree with
		if len(nf) == 1 && strings.HasPrefix(nf[0], "const:") {
			if k, err := strconv.Atoi(strings.TrimPrefix(nf[0], "const:")); err == nil {
				if _, ok := lowest[k]; !ok {
					lowest[k] = n
				}
			}
		}
		if len(ai) == 1 && len(nf) == 1 && ai[0] == wantAI && nf[0] == "const:"+strconv.Itoa(want.nfollow) {
			e.R.OK("TABLE", key, e.P.Pos(fn.Pos()), fmt.Sprintf("ai=%s nfollow=%d as RFC 8949 prescribes (shortest form)", want.ai, want.nfollow))
		} else {
			e.R.Fail("TABLE", key, e.P.Pos(fn.Pos()), "head chosen for this value is not the shortest form of RFC 8949",
				fmt.Sprintf("got ai=%v nfollow=%v", ai, nf), fmt.Sprintf("want ai=%s nfollow=%d", wantAI, want.nfollow))
		}
	}
	// emission: 1+nfollow bytes, first = type|ai, then n big-endian
	e.requireStoreIn("TABLE", fn, "make([]byte,{(const:1 + *)|(* + const:1)})[const:0]",
		"(param:t | phi(const:24|const:25|const:26|const:27|conv(param:n)))", "first byte = major type | additional information")
	found := false
	for _, b := range fn.Blocks {
		for _, in := range b.Instrs {
			st, ok := in.(*ssa.Store)
			if !ok {
				continue
			}
			ia, ok := st.Addr.(*ssa.IndexAddr)
			if !ok || prov.Of(st.Val) != "conv(phi((↺ >> const:8)|param:n))" {
				continue
			}
			if descendingFill(ia) {
				found = true
			}
		}
	}
	if found {
		e.R.OK("TABLE", "encodeTypedUint:big-endian-loop", e.P.Pos(fn.Pos()), "follow bytes are written from index nfollow down to 1, each the low byte of n, n >>= 8: big-endian")
	} else {
		e.R.Fail("TABLE", "encodeTypedUint:big-endian-loop", e.P.Pos(fn.Pos()), "cannot recognise the big-endian emission loop (encoded[i+1] = byte(n); n >>= 8 for i = nfollow-1 .. 0)")
	}
	return lowest
}

// requireStoreIn is requireStore with a distinct name to keep rule keys apart.
func (e *Env) requireStoreIn(rule string, fn *ssa.Function, addrPat, valPat, what string) {
	e.requireStore(rule, fn, addrPat, valPat, what)
}

// decoderHeadTable (C12a): the additional-information partition of decodeTypedUint.
func decoderHeadTable(e *Env) map[int]string {
	fn := e.fn("internal/cbor.(*Decoder).decodeTypedUint")
	out := map[int]string{}
	if fn == nil {
		return out
	}
	okOut := gate.Outcome{Kind: gate.ErrNil, Idx: 2}
	// the read of the follow bytes: io.ReadFull(d.r, make([]byte, L)), in the
	// function itself or in a helper the rule tables do not know (L is then
	// the argument the helper's size parameter stands for)
	type followRead struct {
		block *ssa.BasicBlock // in fn
		n     ssa.Value       // the buffer length, a value of fn
	}
	var reads []followRead
	bufLen := func(c *ssa.Call) ssa.Value {
		var v ssa.Value = c.Call.Args[1]
		if sl, ok := v.(*ssa.Slice); ok {
			v = sl.X
		}
		if ms, ok := v.(*ssa.MakeSlice); ok {
			return ms.Len
		}
		return nil
	}
	for _, b := range fn.Blocks {
		for _, in := range b.Instrs {
			if c, ok := in.(*ssa.Call); ok && prov.CalleeName(&c.Call) == "io.ReadFull" && prov.Of(c.Call.Args[0]) == "param:d.r" {
				reads = append(reads, followRead{b, bufLen(c)})
			}
		}
	}
	for _, hc := range unknownHelperCalls(e, fn) {
		h := hc.Call.StaticCallee()
		prov.PushSubst(h, &hc.Call)
		for _, b := range h.Blocks {
			for _, in := range b.Instrs {
				c, ok := in.(*ssa.Call)
				if !ok || prov.CalleeName(&c.Call) != "io.ReadFull" || prov.Of(c.Call.Args[0]) != "param:d.r" {
					continue
				}
				var n ssa.Value
				if p, isParam := bufLen(c).(*ssa.Parameter); isParam {
					for i, hp := range h.Params {
						if hp == p {
							n = hc.Call.Args[i]
						}
					}
				}
				reads = append(reads, followRead{hc.Block(), n})
			}
		}
		prov.PopSubst()
	}
	for ai := 0; ai < 32; ai++ {
		cfg := assumeVal(tAI, strconv.Itoa(ai))
		ctx := gate.New(e.P, e.P.VTA(), cfg.assume...)
		reach := ctx.SuccessReachable(fn, okOut)
		live := map[*ssa.BasicBlock]bool{}
		for _, b := range ctx.ReachableBlocks(fn) {
			live[b] = true
		}
		// follow bytes read under this head: the evaluated buffer lengths of the reachable reads
		var nf []string
		for _, r := range reads {
			if !live[r.block] {
				continue
			}
			if l := r.n; l != nil {
				if v, ok := ctx.EvalValue(fn, l); ok {
					nf = append(nf, v)
					continue
				}
			}
			nf = append(nf, "?")
		}
		key := fmt.Sprintf("decodeTypedUint:ai=%d", ai)
		want := map[int]string{24: "1", 25: "2", 26: "4", 27: "8"}
		switch {
		case ai < 24:
			if reach && len(nf) == 0 {
				e.R.OK("TABLE", key, e.P.Pos(fn.Pos()), "direct value, no follow bytes")
				out[ai] = "0"
			} else {
				e.R.Fail("TABLE", key, e.P.Pos(fn.Pos()), "additional information below 24 must decode directly with no follow bytes", fmt.Sprintf("follow reads=%v success reachable=%v", nf, reach))
			}
		case ai <= 27:
			if reach && len(nf) == 1 && nf[0] == want[ai] {
				e.R.OK("TABLE", key, e.P.Pos(fn.Pos()), "follow bytes "+want[ai])
				out[ai] = want[ai]
				// ... and the read is on every successful path, its error honoured
				e.requireGates("GATE", fn, okOut, cfg, gate.CallOK("D.follow", "io.ReadFull", "param:d.r", "make([]byte,*)"))
			} else {
				e.R.Fail("TABLE", key, e.P.Pos(fn.Pos()), "wrong number of follow bytes for this additional information", fmt.Sprintf("follow reads=%v want %s, success reachable=%v", nf, want[ai], reach))
			}
		default:
			if !reach {
				e.R.OK("TABLE", key, e.P.Pos(fn.Pos()), "reserved / indefinite-length head: every path is an error exit")
				out[ai] = "error"
			} else {
				e.R.Fail("TABLE", key, e.P.Pos(fn.Pos()), "reserved or indefinite-length additional information (28..31) must be rejected, but a successful return is reachable")
			}
		}
	}
	// value assembly and exact reads
	e.requireGates("GATE", fn, okOut, noCfg, gate.CallOK("D.first", "(*cbor.Decoder).ReadByte", "param:d"))
	e.requireResult("RESULT", fn, okOut, 0, "(call:(*cbor.Decoder).ReadByte(param:d)#0 & const:224)", "major type = first byte & 0xe0")
	// the value: the additional information itself below 24 (evaluated per
	// head), otherwise the big-endian accumulation n = n<<8 | follow[i]
	for ai := 0; ai < 28; ai++ {
		cfg := assumeVal(tAI, strconv.Itoa(ai))
		ctx := gate.New(e.P, e.P.VTA(), cfg.assume...)
		live := map[*ssa.BasicBlock]bool{}
		for _, b := range ctx.ReachableBlocks(fn) {
			live[b] = true
		}
		okAll, n := true, 0
		why := ""
		for _, r := range ctx.SuccessReturns(fn, okOut) {
			if !live[r.Block()] || len(r.Results) < 2 {
				continue
			}
			n++
			if ai < 24 {
				if v, ok := ctx.EvalValue(fn, r.Results[1]); !ok || v != strconv.Itoa(ai) {
					okAll, why = false, fmt.Sprintf("returns %q (evaluated: %v)", v, ok)
				}
			} else if t := prov.Of(r.Results[1]); !prov.Match("*((↺ << const:8) | conv(make([]byte,*)[*]))*", t) {
				okAll, why = false, "returns "+t
			}
		}
		key := fmt.Sprintf("decodeTypedUint:value(ai=%d)", ai)
		switch {
		case n == 0:
			e.R.Fail("RESULT", key, e.P.Pos(fn.Pos()), "no successful return is reachable for this head")
		case okAll && ai < 24:
			e.R.OK("RESULT", key, e.P.Pos(fn.Pos()), "the value is the additional information itself")
		case okAll:
			e.R.OK("RESULT", key, e.P.Pos(fn.Pos()), "the value is the big-endian accumulation of the follow bytes")
		default:
			e.R.Fail("RESULT", key, e.P.Pos(fn.Pos()), "wrong value for this head: "+why)
		}
	}
	return out
}

// addInfoTables (C13a): the three tables of addinfo.go.
func addInfoTables(e *Env) (class map[int]string, length map[string]string, limit map[string]string) {
	class, length, limit = map[int]string{}, map[string]string{}, map[string]string{}
	conv := e.fn("internal/cbor.convertToAdditionalInfo")
	ln := e.fn("internal/cbor.(AdditionalInfo).getAdditionalInfoLength")
	lim := e.fn("internal/cbor.(AdditionalInfo).getAdditionalInfoValueLowerLimit")
	if conv == nil || ln == nil || lim == nil {
		return
	}
	for ai := 0; ai < 32; ai++ {
		ctx := gate.New(e.P, e.P.VTA(), assumeVal("(param:b & const:31)", strconv.Itoa(ai)).assume...)
		ex := ctx.ExitsUnder(conv, 0)
		want := "const:0"
		switch {
		case ai >= 24 && ai <= 27:
			want = "const:" + strconv.Itoa(ai-23)
		case ai >= 28 && ai <= 30:
			want = "const:5"
		case ai == 31:
			want = "const:6"
		}
		key := fmt.Sprintf("convertToAdditionalInfo:ai=%d", ai)
		if len(ex) == 1 && ex[0] == want {
			e.R.OK("TABLE", key, e.P.Pos(conv.Pos()), "class "+want)
			class[ai] = strings.TrimPrefix(want, "const:")
		} else {
			e.R.Fail("TABLE", key, e.P.Pos(conv.Pos()), "additional information is classified wrongly", fmt.Sprintf("got %v want %s", ex, want))
		}
	}
	wantLen := []string{"const:0", "const:1", "const:2", "const:4", "const:8", "panic", "panic"}
	wantLim := []string{"const:0", "const:24", "const:256", "const:65536", "const:4294967296", "panic", "panic"}
	for k := 0; k < 7; k++ {
		ctx := gate.New(e.P, e.P.VTA(), assumeVal("param:ainfo", strconv.Itoa(k)).assume...)
		ex := ctx.ExitsUnder(ln, 0)
		key := fmt.Sprintf("getAdditionalInfoLength:class=%d", k)
		if len(ex) == 1 && ex[0] == wantLen[k] {
			e.R.OK("TABLE", key, e.P.Pos(ln.Pos()), "length "+wantLen[k])
			length[strconv.Itoa(k)] = strings.TrimPrefix(wantLen[k], "const:")
		} else {
			e.R.Fail("TABLE", key, e.P.Pos(ln.Pos()), "follow-byte count of this class is wrong", fmt.Sprintf("got %v want %s", ex, wantLen[k]))
		}
		ex = ctx.ExitsUnder(lim, 0)
		key = fmt.Sprintf("getAdditionalInfoValueLowerLimit:class=%d", k)
		if len(ex) == 1 && ex[0] == wantLim[k] {
			e.R.OK("TABLE", key, e.P.Pos(lim.Pos()), "lower limit "+wantLim[k])
			limit[strconv.Itoa(k)] = strings.TrimPrefix(wantLim[k], "const:")
		} else {
			e.R.Fail("TABLE", key, e.P.Pos(lim.Pos()), "lowest value that may use this head size is wrong (non-shortest heads accepted, or shortest heads refused)", fmt.Sprintf("got %v want %s", ex, wantLim[k]))
		}
	}
	return
}

// headTablesAgree: encoder thresholds, decoder follow counts and the
// deterministic checker's tables describe the same partition.
func headTablesAgree(e *Env, lowest map[int]string, dec map[int]string, class map[int]string, length, limit map[string]string) {
	ok := true
	var why []string
	for ai := 24; ai <= 27; ai++ {
		cl := class[ai]
		if dec[ai] == "" || length[cl] == "" || dec[ai] != length[cl] {
			ok = false
			why = append(why, fmt.Sprintf("ai %d: decoder reads %s follow bytes, addinfo table says %s", ai, dec[ai], length[cl]))
		}
		nf, _ := strconv.Atoi(length[cl])
		if lowest[nf] == "" || limit[cl] == "" || lowest[nf] != limit[cl] {
			ok = false
			why = append(why, fmt.Sprintf("ai %d: encoder starts using %d follow bytes at %s, lower limit of the class is %s", ai, nf, lowest[nf], limit[cl]))
		}
	}
	for ai := 28; ai < 32; ai++ {
		if dec[ai] != "error" || (class[ai] != "5" && class[ai] != "6") {
			ok = false
			why = append(why, fmt.Sprintf("ai %d must be an error in the decoder and reserved/indefinite in addinfo", ai))
		}
	}
	if ok {
		e.R.OK("TABLE", "cbor-head-tables-agree", "-", "encoder thresholds = lower limits of the deterministic checker; decoder follow counts = addinfo lengths; 28..31 rejected everywhere")
	} else {
		e.R.Fail("TABLE", "cbor-head-tables-agree", "-", "the CBOR head tables of encoder, decoder and deterministic checker disagree", why...)
	}
}

var _ = token.ADD

// Quiet variants: the same extraction, recorded under a scratch report so that
// a property that only needs the agreement obligation does not duplicate the
// per-value obligations of C12/C13.
func decoderHeadTableQuiet(e *Env) map[int]string {
	e2 := *e
	e2.R = coreScratch(e)
	return decoderHeadTable(&e2)
}

func addInfoTablesQuiet(e *Env) (map[int]string, map[string]string, map[string]string) {
	e2 := *e
	e2.R = coreScratch(e)
	return addInfoTables(&e2)
}

func encoderHeadTableQuiet(e *Env) map[int]string {
	e2 := *e
	e2.R = coreScratch(e)
	return encoderHeadTable(&e2)
}

// descendingFill: the index of the store runs over nfollow, nfollow-1, ..., 1
// where 1+nfollow is the length of the slice written: the index is i + c for
// a counter i that starts at nfollow - c, is decremented by one per iteration
// and stops after the value 1 - c (c = 0 or 1).
func descendingFill(ia *ssa.IndexAddr) bool {
	isConst := func(v ssa.Value, n int64) bool {
		k, ok := v.(*ssa.Const)
		return ok && k.Value != nil && k.Value.Kind() == constant.Int && k.Int64() == n
	}
	c := int64(0)
	var ph *ssa.Phi
	switch x := ia.Index.(type) {
	case *ssa.Phi:
		ph = x
	case *ssa.BinOp:
		p, ok := x.X.(*ssa.Phi)
		if !ok || x.Op != token.ADD || !isConst(x.Y, 1) {
			return false
		}
		ph, c = p, 1
	default:
		return false
	}
	if len(ph.Edges) != 2 {
		return false
	}
	var init ssa.Value
	dec := false
	for _, ed := range ph.Edges {
		if b, ok := ed.(*ssa.BinOp); ok && b.Op == token.SUB && b.X == ssa.Value(ph) && isConst(b.Y, 1) {
			dec = true
		} else {
			init = ed
		}
	}
	if !dec || init == nil {
		return false
	}
	// init = NF - c
	var nf ssa.Value
	if c == 1 {
		b, ok := init.(*ssa.BinOp)
		if !ok || b.Op != token.SUB || !isConst(b.Y, 1) {
			return false
		}
		nf = b.X
	} else {
		nf = init
	}
	// the loop continues while i >= 1 - c
	ifi, ok := ph.Block().Instrs[len(ph.Block().Instrs)-1].(*ssa.If)
	if !ok {
		return false
	}
	cond, ok := ifi.Cond.(*ssa.BinOp)
	if !ok || cond.X != ssa.Value(ph) {
		return false
	}
	k, ok := cond.Y.(*ssa.Const)
	if !ok || k.Value == nil || k.Value.Kind() != constant.Int {
		return false
	}
	last := k.Int64()
	switch cond.Op {
	case token.GEQ:
	case token.GTR:
		last++
	default:
		return false
	}
	if last != 1-c {
		return false
	}
	// the slice written has length 1 + NF
	ms, ok := ia.X.(*ssa.MakeSlice)
	if !ok {
		return false
	}
	l, ok := ms.Len.(*ssa.BinOp)
	if !ok || l.Op != token.ADD {
		return false
	}
	return (isConst(l.X, 1) && l.Y == nf) || (isConst(l.Y, 1) && l.X == nf)
}
