package props

import (
	"fmt"
	"strings"

	"golang.org/x/tools/go/ssa"

	"wpverif/internal/errprop"
	"wpverif/internal/load"
	"wpverif/internal/prov"
)

// serializerEntries are the serializers named by C19 (and shared by C04/C11/C17):
// every io.Writer / *cbor.Encoder / *CountingWriter parameter or receiver of
// these functions is a destination.
var serializerEntries = []string{
	"bundle.(*Bundle).WriteTo",
	"bundle.(*CountingWriter).Write",
	"bundle.(*CountingWriter).ReadFrom",
	"signedexchange.(*Exchange).Write",
	"signedexchange.(*Exchange).DumpExchangeHeaders",
	"signedexchange.(*Exchange).DumpSignedMessage",
	"signedexchange/certurl.(CertChain).Write",
	"signedexchange/certurl.(*AugmentedCertificate).EncodeTo",
	"signedexchange/mice.(Encoding).Encode",
	"internal/cbor.(*Encoder).EncodeUint",
	"internal/cbor.(*Encoder).EncodeInt",
	"internal/cbor.(*Encoder).EncodeByteString",
	"internal/cbor.(*Encoder).EncodeTextString",
	"internal/cbor.(*Encoder).EncodeArrayHeader",
	"internal/cbor.(*Encoder).EncodeBool",
	"internal/cbor.(*Encoder).EncodeMap",
}

// destAnalysis seeds and runs E3 over everything reachable from the entries.
func destAnalysis(e *Env, entries []string) (*errprop.Analysis, map[*ssa.Function]bool) {
	roots := e.fns(entries...)
	scope := e.P.Reachable(e.P.VTA(), roots...)
	for f := range scope {
		if !e.P.IsLibrary(f) {
			delete(scope, f)
		}
	}
	a := errprop.New(e.P, e.P.VTA(), scope)
	for _, r := range roots {
		for _, p := range r.Params {
			if isWriterLike(p.Type()) {
				a.Seed(p)
			}
		}
	}
	a.Propagate()
	return a, scope
}

func init() { register("C19", checkC19) }

func checkC19(e *Env) {
	e.R.Explanation = "Decided (structural, necessary condition of C19): every call site, in the call trees of the serializers named by the property " +
		"(Bundle.WriteTo, CountingWriter, Exchange.Write/DumpExchangeHeaders/DumpSignedMessage, CertChain.Write/EncodeTo, mice Encode, cbor.Encoder methods), " +
		"that hands bytes to a destination-derived writer and returns an error propagates that error on every path: returned directly, or tested against nil with the failing edge " +
		"reaching only failing returns and no further destination write (prefix property); CountingWriter adds the count of every forwarded write to Written on every path, and Bundle.WriteTo returns cw.Written. " +
		"Not decided: that the bytes accepted before the fault equal a prefix of the fault-free output beyond 'no write after a failed one'; behaviour of the destination itself."
	e.R.RuleText = "E3: destination-derived values = least fixpoint of forward flow from the writer parameters of the listed serializers through interface conversions, wrapper structs (field-based), " +
		"parameters (call graph, VTA) and closures; obligation = each call with an error result receiving such a value; non-trivial = obligation whose discharge needed a branch or call-graph step (all of them)"
	a, scope := destAnalysis(e, serializerEntries)
	e.R.Counts["scope_functions"] = len(scope)
	e.R.Counts["destination_values"] = len(a.D)
	sites := a.Sites(scope)
	for _, s := range sites {
		if s.OK {
			e.R.OK("ERRPROP", s.Key, s.Pos, s.How)
		} else {
			e.R.Fail("ERRPROP", s.Key, s.Pos, "destination write whose error is not propagated: "+s.How,
				"callee "+prov.CalleeName(s.Call.Common()), "in "+load.FuncName(s.Fn))
		}
	}
	e.R.Floor("ERRPROP", 50)
	countingWriterAccounting(e, a)
	writeToReturnsWritten(e)

	// informational: exported library functions with writer parameters outside the property's list
	inScope := map[string]bool{}
	for _, n := range serializerEntries {
		inScope[n] = true
	}
	for _, fn := range e.P.Funcs {
		if !e.P.IsLibrary(fn) || !exported(fn) || inScope[load.FuncName(fn)] || scope[fn] {
			continue
		}
		for _, p := range fn.Params {
			if isWriterLike(p.Type()) {
				e.R.Infof("writer-taking function outside C19's serializer list (not checked): %s", load.FuncName(fn))
				break
			}
		}
	}
}

// countingWriterAccounting: in every method of CountingWriter each forwarding
// call (a destination write through cw.w) is followed, on every path to the
// next forwarding call or to a return, by a store cw.Written += f(count).
func countingWriterAccounting(e *Env, a *errprop.Analysis) {
	n := 0
	for _, name := range []string{"bundle.(*CountingWriter).Write", "bundle.(*CountingWriter).ReadFrom"} {
		fn := e.fn(name)
		if fn == nil {
			continue
		}
		counter := map[string]int{}
		for _, b := range fn.Blocks {
			for i, in := range b.Instrs {
				call, ok := in.(*ssa.Call)
				if !ok || !a.IsDestWrite(call) {
					continue
				}
				n++
				cname := prov.CalleeName(&call.Call)
				counter[cname]++
				key := fmt.Sprintf("%s:count-after#%s#%d", name, cname, counter[cname])
				countTerm := prov.Of(call) + "#0"
				isAcct := func(x ssa.Instruction) bool {
					st, ok := x.(*ssa.Store)
					if !ok {
						return false
					}
					if !strings.HasSuffix(prov.Of(st.Addr), ".Written") {
						return false
					}
					// the stored value must be Written + f(count of this call)
					return accountsFor(st.Val, call)
				}
				isFwd := func(x ssa.Instruction) bool {
					c2, ok := x.(*ssa.Call)
					return ok && c2 != call && a.IsDestWrite(c2)
				}
				bad := followUntil(fn, b, i+1, isAcct, isFwd)
				if bad == "" {
					e.R.OK("ACCOUNT", key, e.P.InstrPos(in), "every path from the forwarding call to the next one / to a return adds its count to Written")
				} else {
					e.R.Fail("ACCOUNT", key, e.P.InstrPos(in), "bytes handed to the destination are not added to Written on some path: "+bad, "count term "+countTerm)
				}
			}
		}
	}
	e.R.Floor("ACCOUNT", 3)
	_ = n
}

// accountsFor: v is (load Written) + g(count result of call), where the count
// result may pass through conversions and intermediate additions.
func accountsFor(v ssa.Value, call *ssa.Call) bool {
	bo, ok := v.(*ssa.BinOp)
	if !ok || bo.Op.String() != "+" {
		return false
	}
	hasWritten := strings.HasSuffix(prov.Of(bo.X), ".Written") || strings.HasSuffix(prov.Of(bo.Y), ".Written")
	if !hasWritten {
		return false
	}
	return derivesOnlyFromCount(bo.X, call, 0) || derivesOnlyFromCount(bo.Y, call, 0)
}

// derivesOnlyFromCount: v is conv*(count) — exactly the count of this call.
func derivesOnlyFromCount(v ssa.Value, call *ssa.Call, d int) bool {
	if d > 6 {
		return false
	}
	switch x := v.(type) {
	case *ssa.Convert:
		return derivesOnlyFromCount(x.X, call, d+1)
	case *ssa.ChangeType:
		return derivesOnlyFromCount(x.X, call, d+1)
	case *ssa.Extract:
		return x.Tuple == call && x.Index == 0
	}
	return false
}

// followUntil walks forward from instruction index `from` of block b: every
// path must meet an instruction satisfying good before one satisfying stop or
// before leaving the function.  Returns "" or a description of the bad path.
func followUntil(fn *ssa.Function, b *ssa.BasicBlock, from int, good, stop func(ssa.Instruction) bool) string {
	type item struct {
		b    *ssa.BasicBlock
		from int
	}
	seen := map[*ssa.BasicBlock]bool{}
	stack := []item{{b, from}}
	for len(stack) > 0 {
		it := stack[len(stack)-1]
		stack = stack[:len(stack)-1]
		done := false
		for i := it.from; i < len(it.b.Instrs); i++ {
			in := it.b.Instrs[i]
			if good(in) {
				done = true
				break
			}
			if stop(in) {
				return fmt.Sprintf("reaches the next forwarding call in block %d first", it.b.Index)
			}
			if _, ok := in.(*ssa.Return); ok {
				return fmt.Sprintf("reaches a return in block %d first", it.b.Index)
			}
		}
		if done {
			continue
		}
		for _, s := range it.b.Succs {
			if !seen[s] {
				seen[s] = true
				stack = append(stack, item{s, 0})
			}
		}
	}
	return ""
}

// reachedFromUses: some instruction that uses v can be executed before r.
func reachedFromUses(v ssa.Value, r *ssa.Return) bool {
	if v.Referrers() == nil {
		return false
	}
	for _, u := range *v.Referrers() {
		if _, isDbg := u.(*ssa.DebugRef); isDbg {
			continue
		}
		if u.Block() == r.Block() {
			return true
		}
		seen := map[*ssa.BasicBlock]bool{}
		stack := append([]*ssa.BasicBlock{}, u.Block().Succs...)
		for len(stack) > 0 {
			x := stack[len(stack)-1]
			stack = stack[:len(stack)-1]
			if x == r.Block() {
				return true
			}
			if seen[x] {
				continue
			}
			seen[x] = true
			stack = append(stack, x.Succs...)
		}
	}
	return false
}

// writeToReturnsWritten: every Return of Bundle.WriteTo returns cw.Written.
func writeToReturnsWritten(e *Env) {
	fn := e.fn("bundle.(*Bundle).WriteTo")
	if fn == nil {
		return
	}
	k := 0
	for _, b := range fn.Blocks {
		r, ok := b.Instrs[len(b.Instrs)-1].(*ssa.Return)
		if !ok {
			continue
		}
		k++
		key := fmt.Sprintf("bundle.(*Bundle).WriteTo:return#%d", k)
		t := prov.Of(r.Results[0])
		if prov.Match("call:bundle.NewCountingWriter(param:w).Written", t) {
			e.R.OK("RETCOUNT", key, e.P.InstrPos(r), "returns the Written field of the counting writer wrapping w")
		} else if t == "const:0" && len(fn.Params) == 2 && !reachedFromUses(fn.Params[1], r) {
			e.R.OK("RETCOUNT", key, e.P.InstrPos(r), "returns 0 on a path on which the destination has not been touched yet (no use of w precedes this return)")
		} else {
			e.R.Fail("RETCOUNT", key, e.P.InstrPos(r), "byte count returned is "+t+", not the Written field of the counting writer wrapping the destination")
		}
	}
	e.R.Floor("RETCOUNT", 5)
}
