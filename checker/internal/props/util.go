package props

import (
	"go/types"
	"sort"
	"strings"

	"golang.org/x/tools/go/ssa"

	"wpverif/internal/load"
	"wpverif/internal/prov"
)

// fn resolves an anchor function by name; an unresolvable anchor is an
// UNDECIDED obligation (fails closed), never a silent skip.
func (e *Env) fn(name string) *ssa.Function {
	f, ok := e.P.FuncOK(name)
	if !ok {
		e.R.Undecided("ANCHOR", name, "-", "anchor function "+name+" not found in the current tree (renamed or removed); the rules anchored on it cannot be evaluated")
		return nil
	}
	return f
}

func (e *Env) fns(names ...string) []*ssa.Function {
	var out []*ssa.Function
	for _, n := range names {
		if f := e.fn(n); f != nil {
			out = append(out, f)
		}
	}
	return out
}

func isWriterLike(t types.Type) bool {
	s := types.TypeString(t, nil)
	switch s {
	case "io.Writer", "*github.com/WICG/webpackage/go/internal/cbor.Encoder", "*github.com/WICG/webpackage/go/bundle.CountingWriter":
		return true
	}
	return false
}

func sortedFuncs(m map[*ssa.Function]bool) []*ssa.Function {
	var out []*ssa.Function
	for f := range m {
		out = append(out, f)
	}
	sort.Slice(out, func(i, j int) bool { return load.FuncName(out[i]) < load.FuncName(out[j]) })
	return out
}

func exported(fn *ssa.Function) bool {
	if fn.Parent() != nil || fn.Object() == nil {
		return false
	}
	if !fn.Object().Exported() {
		return false
	}
	if recv := fn.Signature.Recv(); recv != nil {
		t := recv.Type()
		if p, ok := t.(*types.Pointer); ok {
			t = p.Elem()
		}
		if n, ok := t.(*types.Named); ok && !n.Obj().Exported() {
			return false
		}
	}
	return true
}

func hasPrefixAny(s string, ps ...string) bool {
	for _, p := range ps {
		if strings.HasPrefix(s, p) {
			return true
		}
	}
	return false
}

func calleeIs(c *ssa.Call, name string) bool { return prov.CalleeName(&c.Call) == name }
func provOf(v ssa.Value) string              { return prov.Of(v) }

func shortT(t types.Type) string {
	return types.TypeString(t, func(p *types.Package) string { return p.Name() })
}
