package props

import (
	"fmt"
	"go/token"
	"sort"

	"golang.org/x/tools/go/ssa"

	"wpverif/internal/load"
)

// carried is one piece of state that survives from one iteration of a loop
// into the next and is read there without having been computed from its own
// previous value (so it is neither an accumulator nor a counter): a variable
// assigned on only some of the paths through the body and read on others.
type carried struct {
	header *ssa.BasicBlock
	name   string // source name of the variable (SSA comment of the cell / phi)
	pos    token.Pos
	kind   string // "cell" (captured or address-taken variable) or "phi"
}

// dependsOn: v is computed from one of the values in set (through operators,
// conversions, calls and merges; bounded depth).
func dependsOn(v ssa.Value, set map[ssa.Value]bool, d int, seen map[ssa.Value]bool) bool {
	if v == nil || d > 10 || seen[v] {
		return false
	}
	if set[v] {
		return true
	}
	seen[v] = true
	in, ok := v.(ssa.Instruction)
	if !ok {
		return false
	}
	for _, op := range in.Operands(nil) {
		if *op != nil && dependsOn(*op, set, d+1, seen) {
			return true
		}
	}
	return false
}

// loopCarriedState lists the non-accumulating state carried round the natural
// loops of fn.
func loopCarriedState(fn *ssa.Function) []carried {
	var out []carried
	for _, body := range naturalLoops(fn) {
		var header *ssa.BasicBlock
		for b := range body {
			h := true
			for o := range body {
				if !b.Dominates(o) {
					h = false
					break
				}
			}
			if h {
				header = b
				break
			}
		}
		if header == nil {
			continue
		}
		// (1) cells: variables living in memory, declared before the loop
		for _, b := range fn.Blocks {
			if body[b] {
				continue
			}
			for _, in := range b.Instrs {
				al, ok := in.(*ssa.Alloc)
				if !ok || al.Referrers() == nil {
					continue
				}
				var stores []*ssa.Store
				var reads []ssa.Instruction
				loads := map[ssa.Value]bool{}
				for _, r := range *al.Referrers() {
					if !body[r.Block()] {
						if u, ok := r.(*ssa.UnOp); ok && u.Op == token.MUL {
							loads[u] = true
						}
						continue
					}
					switch x := r.(type) {
					case *ssa.Store:
						if x.Addr == al {
							stores = append(stores, x)
						}
					case *ssa.UnOp:
						if x.Op == token.MUL {
							reads = append(reads, x)
							loads[x] = true
						}
					case *ssa.MakeClosure:
						reads = append(reads, x)
					}
				}
				if len(stores) == 0 || len(reads) == 0 {
					continue
				}
				acc := true
				for _, st := range stores {
					if !dependsOn(st.Val, loads, 0, map[ssa.Value]bool{}) {
						acc = false
					}
				}
				if acc {
					continue
				}
				// fresh in every iteration: some store dominates every read
				stale := false
				for _, rd := range reads {
					fresh := false
					for _, st := range stores {
						if st.Block() == rd.Block() {
							for _, i2 := range st.Block().Instrs {
								if i2 == ssa.Instruction(st) {
									fresh = true
									break
								}
								if i2 == rd {
									break
								}
							}
						} else if st.Block().Dominates(rd.Block()) && st.Block() != header {
							fresh = true
						}
						if fresh {
							break
						}
					}
					if !fresh {
						stale = true
					}
				}
				if stale {
					out = append(out, carried{header, al.Comment, al.Pos(), "cell"})
				}
			}
		}
		// (2) registers: phis of the header
		for _, in := range header.Instrs {
			p, ok := in.(*ssa.Phi)
			if !ok {
				break
			}
			cyc := map[ssa.Value]bool{p: true}
			var leaves []ssa.Value
			var walk func(v ssa.Value, d int)
			walk = func(v ssa.Value, d int) {
				if cyc[v] && v != ssa.Value(p) || d > 12 {
					return
				}
				if q, ok := v.(*ssa.Phi); ok && body[q.Block()] && v != ssa.Value(p) {
					cyc[q] = true
					for _, e := range q.Edges {
						walk(e, d+1)
					}
					return
				}
				if v != ssa.Value(p) {
					leaves = append(leaves, v)
				}
			}
			for i, e := range p.Edges {
				if body[header.Preds[i]] {
					walk(e, 0)
				}
			}
			if len(leaves) == 0 {
				continue
			}
			acc := true
			for _, l := range leaves {
				if !dependsOn(l, cyc, 0, map[ssa.Value]bool{}) {
					acc = false
				}
			}
			if acc {
				continue
			}
			// read inside the loop (by anything but the merges of its own cycle)?
			read := false
			for c := range cyc {
				refs := c.Referrers()
				if refs == nil {
					continue
				}
				for _, r := range *refs {
					if !body[r.Block()] {
						continue
					}
					if q, ok := r.(*ssa.Phi); ok && cyc[q] {
						continue
					}
					read = true
				}
			}
			if read {
				out = append(out, carried{header, p.Comment, p.Pos(), "phi"})
			}
		}
	}
	sort.Slice(out, func(i, j int) bool {
		if out[i].header.Index != out[j].header.Index {
			return out[i].header.Index < out[j].header.Index
		}
		return out[i].name < out[j].name
	})
	return out
}

// carriedOnPurpose: the functions of the pinned tree whose loops carry state
// from one iteration to the next by design, with the number of such variables
// and why (confirmed by reading; keyed by function, not by variable name, so a
// rename stays silent).
var carriedOnPurpose = map[string]struct {
	n   int
	why string
}{
	"internal/cbor.(*Encoder).EncodeMap":                            {1, "the previous key, for the canonical-order / duplicate check"},
	"internal/cbor.mapDeterministic":                                {1, "the previous key, for the canonical-order / duplicate check"},
	"signedexchange/structuredheader.(*parser).parseListOfLists":    {1, "the inner list under construction, closed by ';' or ','"},
	"signedexchange/structuredheader.(ListOfLists).serialize":       {2, "the separators, empty before the first element"},
	"signedexchange/structuredheader.(ParameterisedList).serialize": {1, "the separator, empty before the first element"},
}

// iterationsIndependent (rule ITER): a loop that emits, collects or checks
// one record per element must not hand one element's value to the next: in
// every module function reachable from roots, no variable that is assigned on
// only some paths of a loop body is read in a later iteration on a path that
// does not assign it first (accumulators and counters, whose new value is
// computed from the old one, are exempt; so are the functions of
// carriedOnPurpose up to their confirmed count).
func iterationsIndependent(e *Env, rule string, roots ...*ssa.Function) {
	scope := e.P.Reachable(e.P.VTA(), roots...)
	for _, r := range roots {
		if r != nil {
			scope[r] = true
		}
	}
	for _, fn := range sortedFuncs(scope) {
		if !e.P.InModule(fn) || len(fn.Blocks) == 0 {
			continue
		}
		nloops := len(naturalLoops(fn))
		if nloops == 0 {
			continue
		}
		name := load.FuncName(fn)
		cs := loopCarriedState(fn)
		allow := carriedOnPurpose[name]
		if len(cs) <= allow.n {
			how := fmt.Sprintf("%d loops; no value other than accumulators and counters flows from one iteration into the next", nloops)
			if len(cs) > 0 {
				how = fmt.Sprintf("%d loops; %d variable(s) carried on purpose: %s", nloops, len(cs), allow.why)
			}
			e.R.OK(rule, name+":independent", e.P.Pos(fn.Pos()), how)
			continue
		}
		for _, c := range cs {
			pos := c.pos
			if !pos.IsValid() {
				pos = fn.Pos()
			}
			e.R.Fail(rule, fmt.Sprintf("%s:carried(%s)", name, c.name), e.P.Pos(pos),
				fmt.Sprintf("variable %q keeps its value from one iteration of a loop to the next and is read there on a path that does not assign it first: one element's value is used for another (functions known to carry state on purpose: %d variable(s) here)", c.name, allow.n))
		}
	}
}

// CarriedSurvey (debug): every non-accumulating loop-carried variable of the
// module's functions, as "function: kind name".
func CarriedSurvey(p *load.Program) []string {
	var out []string
	for _, fn := range p.Funcs {
		if !p.InModule(fn) {
			continue
		}
		for _, c := range loopCarriedState(fn) {
			out = append(out, fmt.Sprintf("%s: %s %s (%s)", load.FuncName(fn), c.kind, c.name, p.Pos(c.pos)))
		}
	}
	sort.Strings(out)
	return out
}
