package props

import (
	"fmt"
	"go/token"
	"go/types"
	"strings"

	"golang.org/x/tools/go/ssa"

	"wpverif/internal/load"
	"wpverif/internal/prov"
)

func init() { register("C18", checkC18) }

// pureEntries: the serializers and verifiers whose purity C18 is about.
var pureEntries = []string{
	"bundle.(*Bundle).WriteTo",
	"bundle.(Response).EncodeHeader",
	"bundle.(Response).HeaderSha256",
	"signedexchange.(*Exchange).Write",
	"signedexchange.(*Exchange).DumpExchangeHeaders",
	"signedexchange.(*Exchange).DumpSignedMessage",
	"signedexchange.(*Exchange).ComputeHeaderIntegrity",
	"signedexchange.(*Exchange).Verify",
	"signedexchange/certurl.(CertChain).Write",
	"signedexchange/certurl.(*AugmentedCertificate).EncodeTo",
	"signedexchange/certurl.SerializeSCTList",
	"bundle/signature.(*SignedSubset).Encode",
	"bundle/signature.(*Verifier).VerifyExchange",
	"integrityblock.(*IntegrityBlock).CborBytes",
	"integrityblock.GenerateDataToBeSigned",
	"integrityblock/webbundleid.GetWebBundleId",
	"signedexchange/structuredheader.(ListOfLists).String",
	"signedexchange/structuredheader.(ParameterisedList).String",
	"signedexchange/structuredheader.(*ParameterisedIdentifier).String",
	"signedexchange/mice.(Encoding).Encode",
	"signedexchange/version.(Version).HeaderMagicBytes",
	"bundle/version.(Version).HeaderMagicBytes",
}

func isInitFunc(fn *ssa.Function) bool {
	n := fn.Name()
	return n == "init" || strings.HasPrefix(n, "init#")
}

func checkC18(e *Env) {
	e.R.Explanation = "Decided (structural necessary conditions of C18): (E4) in the functions reachable from the serializers and verifiers, the iteration order of a Go map never reaches output: the body of every range-over-map only inserts into maps, appends to a slice, calls pure functions or fails; it never writes to a sink (encoder, writer, builder, buffer, hash) that lives outside the iteration; every slice filled in map order is passed to a normaliser (sort.*, or cbor.Encoder.EncodeMap, which sorts — C11) and used order-sensitively nowhere else; (E5) no library function outside package initialisation stores to a package-level variable, updates a package-level map, or passes memory derived from a package-level slice (including struct fields that alias one) to a writer (copy dst, io.ReadFull, binary.Put*, sort.*, append in place); append on a package-level slice is accepted only when it was built by a composite literal (cap == len, so append must reallocate) and on a caller's []byte parameter never (it can write into the caller's spare capacity — the GetWebBundleId defect); the serializers/verifiers do not store through memory reachable from their inputs and do not call http.Header mutators on them; no time.Now, math/rand, os.Getenv or os.Hostname is reachable from a serializer, crypto/rand.Reader only as the argument of SigningAlgorithmForPrivateKey. " +
		"Not decided: data-race freedom in general (only these 'no shared write' conditions); byte identity across runs."
	e.R.RuleText = "E4 map-order taint with normaliser rule; E5 effect analysis: writes whose target derives from a global or from an input parameter (forward derivation through loads, slices, fields, calls), append-aliasing rule, nondeterminism-source reachability"
	// GROWVIEW: growable views over one base are disjoint (shared rule, growalias.go)
	growableViewsDisjoint(e, 1, "")
	roots := e.fns(pureEntries...)
	scope := e.P.Reachable(e.P.VTA(), roots...)
	for f := range scope {
		if !e.P.IsLibrary(f) {
			delete(scope, f)
		}
	}
	e.R.Counts["scope_functions"] = len(scope)
	mapOrder(e, scope)
	globalsReadOnly(e)
	appendAliasing(e)
	inputsNotWritten(e, roots, scope)
	noNondeterminism(e, scope)
}

// ---------------------------------------------------------------- E4

func isSinkType(t types.Type) bool {
	s := t.String()
	for _, k := range []string{"cbor.Encoder", "io.Writer", "strings.Builder", "bytes.Buffer", "hash.Hash", "os.File", "log.Logger"} {
		if strings.Contains(s, k) {
			return true
		}
	}
	return false
}

func mapOrder(e *Env, scope map[*ssa.Function]bool) { mapOrderN(e, scope, 8) }

func mapOrderN(e *Env, scope map[*ssa.Function]bool, floor int) {
	n := 0
	for _, fn := range sortedFuncs(scope) {
		k := 0
		for _, b := range fn.Blocks {
			ifi, ok := b.Instrs[len(b.Instrs)-1].(*ssa.If)
			if !ok {
				continue
			}
			ex, ok := ifi.Cond.(*ssa.Extract)
			if !ok {
				continue
			}
			nx, ok := ex.Tuple.(*ssa.Next)
			if !ok || nx.IsString || ex.Index != 0 {
				continue
			}
			rg, ok := nx.Iter.(*ssa.Range)
			if !ok {
				continue
			}
			if _, isMap := rg.X.Type().Underlying().(*types.Map); !isMap {
				continue
			}
			n++
			k++
			key := fmt.Sprintf("%s:maprange#%d(%s)", load.FuncName(fn), k, short(prov.Of(rg.X)))
			body := map[*ssa.BasicBlock]bool{}
			for _, bb := range fn.Blocks {
				if b.Succs[0].Dominates(bb) {
					body[bb] = true
				}
			}
			var bad []string
			var tainted []ssa.Value
			// iteration variables captured by closures are spilled to allocs that
			// are re-initialised from the range key/value in every iteration
			loopVars := map[ssa.Value]bool{}
			for bb := range body {
				for _, in := range bb.Instrs {
					if st, ok := in.(*ssa.Store); ok {
						if ex2, ok := st.Val.(*ssa.Extract); ok && ex2.Tuple == ssa.Value(nx) {
							loopVars[st.Addr] = true
						}
					}
				}
			}
			for bb := range body {
				for _, in := range bb.Instrs {
					switch x := in.(type) {
					case *ssa.Call:
						name := prov.CalleeName(&x.Call)
						if name == "builtin:append" {
							// accumulation into a per-key list of an outer map: when two map keys
							// fold onto one key, the list's order is the iteration order
							if lk, ok := x.Call.Args[0].(*ssa.Lookup); ok && !definedIn(lk.X, body) {
								bad = append(bad, "appends to "+short(prov.Of(lk))+", a list kept in an outer map, in iteration order ("+e.P.InstrPos(in)+")")
							}
							// loop-carried accumulation: the header phi that receives this append
							for _, ref := range *x.Referrers() {
								if ph, ok := ref.(*ssa.Phi); ok && !body[ph.Block()] || ok && ph.Block() == b {
									tainted = append(tainted, ph)
								}
							}
							if st := storedTo(x); st != nil {
								tainted = append(tainted, st)
							}
							continue
						}
						var args []ssa.Value
						if x.Call.IsInvoke() {
							args = append(args, x.Call.Value)
						}
						args = append(args, x.Call.Args...)
						for _, a := range args {
							if !isSinkType(a.Type()) {
								continue
							}
							if definedIn(a, body) {
								continue // per-iteration sink
							}
							if strings.HasPrefix(name, "(*log.Logger).") {
								continue // diagnostics, not output of the serializer
							}
							bad = append(bad, fmt.Sprintf("%s writes to %s, which outlives the iteration (%s)", name, short(prov.Of(a)), e.P.InstrPos(in)))
						}
					case *ssa.Store:
						// stores to outer scalars other than idempotent flags
						if al, ok := x.Addr.(*ssa.Alloc); ok && !body[al.Block()] && !loopVars[al] {
							if _, isConst := x.Val.(*ssa.Const); !isConst {
								if _, isApp := x.Val.(*ssa.Call); !isApp {
									bad = append(bad, "stores "+short(prov.Of(x.Val))+" to outer variable "+prov.CanonLocal(al.Parent(), al.Comment)+" ("+e.P.InstrPos(in)+")")
								}
							}
						}
					}
				}
			}
			for _, t := range tainted {
				if w := orderUsesOK(e, t, body, map[ssa.Value]bool{}, 0); w != "" {
					bad = append(bad, w)
				}
			}
			if len(bad) == 0 {
				e.R.OK("MAPORDER", key, e.P.InstrPos(ifi), fmt.Sprintf("body only builds data (%d map-ordered slice(s), each normalised by a sort or by EncodeMap before any order-sensitive use)", len(tainted)))
			} else {
				e.R.Fail("MAPORDER", key, e.P.InstrPos(ifi), "Go map iteration order can reach the output of a serializer", bad...)
			}
		}
	}
	e.R.Counts["map_ranges_in_scope"] = n
	e.R.Floor("MAPORDER", floor)
}

// storedTo: if the append result is stored into an address-taken local (a
// variable captured by a closure), that local.
func storedTo(c *ssa.Call) ssa.Value {
	for _, ref := range *c.Referrers() {
		if st, ok := ref.(*ssa.Store); ok && st.Val == ssa.Value(c) {
			if al, ok := st.Addr.(*ssa.Alloc); ok {
				return al
			}
		}
	}
	return nil
}

func definedIn(v ssa.Value, body map[*ssa.BasicBlock]bool) bool {
	switch x := v.(type) {
	case ssa.Instruction:
		if body[x.Block()] {
			return true
		}
		// wrappers around a per-iteration object
		switch y := v.(type) {
		case *ssa.MakeInterface:
			return definedIn(y.X, body)
		case *ssa.FieldAddr:
			return definedIn(y.X, body)
		}
	}
	return false
}

var normalisers = map[string]int{
	"sort.Strings": 0, "sort.Slice": 0, "sort.SliceStable": 0, "sort.Sort": 0, "sort.Stable": 0, "sort.Ints": 0,
	"slices.Sort": 0, "slices.SortFunc": 0, "slices.SortStableFunc": 0,
	"(*cbor.Encoder).EncodeMap": 1,
}

// orderUsesOK: every use of the map-ordered slice v outside the loop body is a
// normaliser, a length, further accumulation, or (after a dominating
// normaliser on the same slice) anything.  Returns "" or the offending use.
func orderUsesOK(e *Env, v ssa.Value, body map[*ssa.BasicBlock]bool, seen map[ssa.Value]bool, depth int) string {
	if seen[v] || depth > 12 {
		return ""
	}
	seen[v] = true
	refs := v.Referrers()
	if refs == nil {
		return ""
	}
	// a normaliser applied to v (in place) makes later uses safe if it dominates them
	var norm []ssa.Instruction
	var collectNorm func(val ssa.Value)
	collectNorm = func(val ssa.Value) {
		for _, ref := range *val.Referrers() {
			if c, ok := ref.(*ssa.Call); ok {
				if idx, ok := normalisers[prov.CalleeName(&c.Call)]; ok && idx < len(c.Call.Args) && c.Call.Args[idx] == val {
					norm = append(norm, c)
				}
			}
			// sort.Slice(x any, less): the slice travels inside an interface value
			if mi, ok := ref.(*ssa.MakeInterface); ok && mi.X == val {
				collectNorm(mi)
			}
		}
	}
	collectNorm(v)
	if al, ok := v.(*ssa.Alloc); ok {
		// loads of the captured variable
		for _, ref := range *al.Referrers() {
			if u, ok := ref.(*ssa.UnOp); ok && u.Op == token.MUL {
				collectNorm(u)
			}
		}
	}
	afterNorm := func(in ssa.Instruction) bool {
		for _, n := range norm {
			if before(n, in) && n != in {
				return true
			}
		}
		return false
	}
	for _, ref := range *refs {
		in := ref
		if body[in.Block()] {
			continue // accumulation inside the loop
		}
		if afterNorm(in) {
			continue
		}
		switch x := ref.(type) {
		case *ssa.MakeInterface:
			onlyNorm := x.Referrers() != nil && len(*x.Referrers()) > 0
			for _, r2 := range *x.Referrers() {
				c, ok := r2.(*ssa.Call)
				if !ok {
					onlyNorm = false
					break
				}
				if idx, ok := normalisers[prov.CalleeName(&c.Call)]; !ok || idx >= len(c.Call.Args) || c.Call.Args[idx] != ssa.Value(x) {
					onlyNorm = false
				}
			}
			if onlyNorm {
				continue
			}
		case *ssa.Call:
			name := prov.CalleeName(&x.Call)
			if idx, ok := normalisers[name]; ok && idx < len(x.Call.Args) && x.Call.Args[idx] == v {
				continue
			}
			if name == "builtin:len" || name == "builtin:cap" {
				continue
			}
			if name == "builtin:append" {
				if w := orderUsesOK(e, x, body, seen, depth+1); w != "" {
					return w
				}
				continue
			}
			// passed to a module function: follow into the parameter
			if sc := x.Call.StaticCallee(); sc != nil && sc.Blocks != nil && e.P.InModule(sc) {
				for i, a := range x.Call.Args {
					if a == v && i < len(sc.Params) {
						if w := orderUsesOK(e, sc.Params[i], map[*ssa.BasicBlock]bool{}, seen, depth+1); w != "" {
							return w
						}
					}
				}
				continue
			}
			return "map-ordered slice is passed to " + name + " at " + e.P.InstrPos(x) + " before being sorted"
		case *ssa.Phi:
			if w := orderUsesOK(e, x, body, seen, depth+1); w != "" {
				return w
			}
		case *ssa.Store:
			if x.Val == v {
				if al, ok := x.Addr.(*ssa.Alloc); ok {
					if w := orderUsesOK(e, al, body, seen, depth+1); w != "" {
						return w
					}
					continue
				}
				return "map-ordered slice is stored to " + short(prov.Of(x.Addr)) + " at " + e.P.InstrPos(x)
			}
		case *ssa.UnOp:
			if w := orderUsesOK(e, x, body, seen, depth+1); w != "" {
				return w
			}
		case *ssa.Return:
			// the result is map-ordered: every caller must normalise it
			fn := x.Parent()
			for _, caller := range e.P.Funcs {
				for _, b := range caller.Blocks {
					for _, ci := range b.Instrs {
						c, ok := ci.(*ssa.Call)
						if !ok || c.Call.StaticCallee() != fn {
							continue
						}
						if w := orderUsesOK(e, c, map[*ssa.BasicBlock]bool{}, seen, depth+1); w != "" {
							return w
						}
					}
				}
			}
		case *ssa.MakeClosure:
			// the comparison function handed to the normaliser itself
			// (sort.Slice(s, func(i, j int) bool { return s[i] < s[j] })) reads the
			// slice while it is being sorted: not an order-sensitive use
			isLess := false
			for _, r2 := range *x.Referrers() {
				if c, ok := r2.(*ssa.Call); ok {
					if _, ok := normalisers[prov.CalleeName(&c.Call)]; ok && len(c.Call.Args) == 2 && c.Call.Args[1] == ssa.Value(x) {
						isLess = true
					}
				}
			}
			if isLess {
				continue
			}
			// captured by a closure: uses inside the closure
			if cf, ok := x.Fn.(*ssa.Function); ok {
				for i, bnd := range x.Bindings {
					if bnd == v && i < len(cf.FreeVars) {
						if w := orderUsesOK(e, cf.FreeVars[i], map[*ssa.BasicBlock]bool{}, seen, depth+1); w != "" {
							return w
						}
					}
				}
			}
		case *ssa.IndexAddr, *ssa.Index, *ssa.Slice, *ssa.Range:
			return "map-ordered slice is indexed / iterated at " + e.P.InstrPos(ref) + " without a dominating sort"
		case *ssa.Extract, *ssa.DebugRef:
			if ex, ok := ref.(*ssa.Extract); ok {
				if w := orderUsesOK(e, ex, body, seen, depth+1); w != "" {
					return w
				}
			}
		}
	}
	return ""
}

// ---------------------------------------------------------------- E5

// derivedFromGlobal: v points into memory owned by a package-level variable of
// the module (through loads, slices, element/field addresses, phis, and struct
// fields known to alias a global).
func derivedFromGlobal(v ssa.Value, aliasFields map[string]string, depth int) (string, bool) {
	if depth > 10 {
		return "", false
	}
	switch x := v.(type) {
	case *ssa.Global:
		if x.Pkg != nil && strings.HasPrefix(x.Pkg.Pkg.Path(), load.ModulePath) {
			return x.Pkg.Pkg.Name() + "." + x.Name(), true
		}
	case *ssa.UnOp:
		if x.Op == token.MUL {
			if g, ok := x.X.(*ssa.Global); ok {
				return derivedFromGlobal(g, aliasFields, depth+1)
			}
			if fa, ok := x.X.(*ssa.FieldAddr); ok {
				if g, ok := aliasFields[untFieldKey(fa.X, fa.Field)]; ok {
					return g + " (via field " + untFieldKey(fa.X, fa.Field) + ")", true
				}
			}
			// load through a pointer derived from a global's memory
			if _, ok := x.X.(*ssa.IndexAddr); ok {
				return derivedFromGlobal(x.X, aliasFields, depth+1)
			}
		}
	case *ssa.Slice:
		return derivedFromGlobal(x.X, aliasFields, depth+1)
	case *ssa.IndexAddr:
		return derivedFromGlobal(x.X, aliasFields, depth+1)
	case *ssa.FieldAddr:
		return derivedFromGlobal(x.X, aliasFields, depth+1)
	case *ssa.ChangeType:
		return derivedFromGlobal(x.X, aliasFields, depth+1)
	case *ssa.Phi:
		for _, ed := range x.Edges {
			if g, ok := derivedFromGlobal(ed, aliasFields, depth+1); ok {
				return g, true
			}
		}
	}
	return "", false
}

func untFieldKey(x ssa.Value, f int) string {
	t := x.Type()
	if p, ok := t.Underlying().(*types.Pointer); ok {
		t = p.Elem()
	}
	st, ok := t.Underlying().(*types.Struct)
	if !ok {
		return "?"
	}
	return types.TypeString(t, func(p *types.Package) string { return p.Name() }) + "." + st.Field(f).Name()
}

// writerArgs: stdlib functions that write through one of their arguments.
var writerArgs = map[string]int{
	"builtin:copy": 0, "io.ReadFull": 1, "io.ReadAtLeast": 1, "rand.Read": 0,
	"(binary.bigEndian).PutUint16": 1, "(binary.bigEndian).PutUint32": 1, "(binary.bigEndian).PutUint64": 1,
	"sort.Strings": 0, "sort.Slice": 0, "sort.Sort": 0, "sort.Ints": 0, "sort.SliceStable": 0,
	"hex.Decode": 0, "(*base64.Encoding).Decode": 1, "invoke:io.Reader.Read": 1, "invoke:hash.Hash.Sum": 1,
}

// readOnlyMethods: pointer-receiver methods of stdlib types that do not
// modify their receiver.
var readOnlyMethods = map[string]bool{
	"(*regexp.Regexp).MatchString": true, "(*regexp.Regexp).FindStringSubmatch": true, "(*regexp.Regexp).Match": true,
	"(*base64.Encoding).EncodeToString": true, "(*base64.Encoding).DecodeString": true, "(*base64.Encoding).Encode": true,
	"(*base32.Encoding).EncodeToString": true, "(*base32.Encoding).DecodeString": true,
	"(*big.Int).Cmp": true, "(*big.Int).Sign": true, "(*big.Int).Bytes": true, "(*url.URL).String": true,
	"(*time.Location).String": true,
}

func globalsReadOnly(e *Env) {
	// struct fields into which a global-derived slice is stored alias the global
	alias := map[string]string{}
	for _, fn := range e.P.Funcs {
		if !e.P.IsLibrary(fn) {
			continue
		}
		for _, b := range fn.Blocks {
			for _, in := range b.Instrs {
				if st, ok := in.(*ssa.Store); ok {
					if fa, ok := st.Addr.(*ssa.FieldAddr); ok {
						if g, ok := derivedFromGlobal(st.Val, nil, 0); ok {
							alias[untFieldKey(fa.X, fa.Field)] = g
						}
					}
				}
			}
		}
	}
	nGlobals := 0
	for _, pk := range e.P.Pkgs {
		sp := e.P.SSAPkgs[pk.PkgPath]
		if sp == nil || pk.Types.Name() == "main" || strings.HasSuffix(pk.PkgPath, "testhelper") {
			continue
		}
		for _, m := range sp.Members {
			if g, ok := m.(*ssa.Global); ok && !strings.HasPrefix(g.Name(), "init$") {
				nGlobals++
			}
		}
	}
	e.R.Counts["library_globals"] = nGlobals
	e.R.Counts["fields_aliasing_globals"] = len(alias)
	bad := 0
	sites := 0
	for _, fn := range e.P.Funcs {
		if !e.P.IsLibrary(fn) || isInitFunc(fn) {
			continue
		}
		for _, b := range fn.Blocks {
			for _, in := range b.Instrs {
				var target ssa.Value
				what := ""
				switch x := in.(type) {
				case *ssa.Store:
					target, what = x.Addr, "store"
				case *ssa.MapUpdate:
					target, what = x.Map, "map update"
				case *ssa.Call:
					name := prov.CalleeName(&x.Call)
					// a pointer-receiver method of a type outside the module, called on a
					// package-level variable of the module: its body is not analysed here, so
					// it counts as a write unless it is a known read-only method
					// (sync.Pool.Get/Put, sync.Map.Store, bytes.Buffer.Write, ... all mutate)
					if callee := x.Call.StaticCallee(); callee != nil && !e.P.InModule(callee) && callee.Signature.Recv() != nil && len(x.Call.Args) > 0 {
						if _, ptr := callee.Signature.Recv().Type().Underlying().(*types.Pointer); ptr && !readOnlyMethods[name] {
							if _, ok := derivedFromGlobal(x.Call.Args[0], alias, 0); ok {
								target, what = x.Call.Args[0], "receiver of "+name
							}
						}
					}
					if idx, ok := writerArgs[name]; ok && target == nil {
						args := x.Call.Args
						if x.Call.IsInvoke() {
							args = append([]ssa.Value{x.Call.Value}, args...)
						}
						if idx < len(args) {
							target, what = args[idx], "destination of "+name
						}
					}
				}
				if target == nil {
					continue
				}
				sites++
				if g, ok := derivedFromGlobal(target, alias, 0); ok {
					bad++
					e.R.Fail("GLOBALS", fmt.Sprintf("%s:%s(%s)", load.FuncName(fn), what, g), e.P.InstrPos(in),
						"package-level state "+g+" is written after initialisation: concurrent or repeated serializer calls see each other's writes")
				}
			}
		}
	}
	e.R.Counts["write_sites_examined"] = sites
	if bad == 0 {
		e.R.OK("GLOBALS", "library-globals-read-only", "-", fmt.Sprintf("none of the %d write sites of library code outside init targets memory derived from one of the %d package-level variables (or the %d struct fields that alias one)", sites, nGlobals, len(alias)))
	}
	// positive fixture: the derivation recognises a store through a global's slice
	if _, ok := derivedFromGlobal(fixtureGlobalSlice(e), alias, 0); ok {
		e.R.OK("GLOBALS", "fixture:derivation-recognises-global", "-", "self-test: a slice of a package-level []byte is recognised as global-derived").NonTrivial = false
	} else {
		e.R.Undecided("GLOBALS", "fixture:derivation-recognises-global", "-", "self-test failed: the derivation does not recognise loads of package-level slices any more")
	}
}

// fixtureGlobalSlice returns some load of a package-level slice of the module
// (HeaderMagicBytesB1 in bundle/version), used as a positive example.
func fixtureGlobalSlice(e *Env) ssa.Value {
	fn, ok := e.P.FuncOK("bundle/version.(Version).HeaderMagicBytes")
	if !ok {
		return nil
	}
	for _, b := range fn.Blocks {
		for _, in := range b.Instrs {
			if u, ok := in.(*ssa.UnOp); ok && u.Op == token.MUL {
				if _, ok := u.X.(*ssa.Global); ok {
					return u
				}
			}
		}
	}
	return nil
}

// literalCapEqLen: the global is initialised by a composite literal (a full
// slice of a fresh array) and is never assigned again: cap == len.
func literalCapEqLen(e *Env, name string) bool {
	n := 0
	okInit := false
	for _, fn := range e.P.Funcs {
		for _, b := range fn.Blocks {
			for _, in := range b.Instrs {
				st, ok := in.(*ssa.Store)
				if !ok {
					continue
				}
				g, ok := st.Addr.(*ssa.Global)
				if !ok || g.Pkg.Pkg.Name()+"."+g.Name() != name {
					continue
				}
				n++
				if sl, ok := st.Val.(*ssa.Slice); ok && sl.Low == nil && sl.High == nil && sl.Max == nil {
					if _, ok := sl.X.(*ssa.Alloc); ok && isInitFunc(fn) {
						okInit = true
					}
				}
			}
		}
	}
	return n == 1 && okInit
}

func appendAliasing(e *Env) {
	n := 0
	for _, fn := range e.P.Funcs {
		if !e.P.IsLibrary(fn) || isInitFunc(fn) {
			continue
		}
		for _, b := range fn.Blocks {
			for _, in := range b.Instrs {
				c, ok := in.(*ssa.Call)
				if !ok || prov.CalleeName(&c.Call) != "builtin:append" {
					continue
				}
				first := c.Call.Args[0]
				key := fmt.Sprintf("%s:append(%s)", load.FuncName(fn), short(prov.Of(first)))
				if g, ok := derivedFromGlobal(first, nil, 0); ok {
					n++
					if _, isSlice := first.(*ssa.Slice); !isSlice && literalCapEqLen(e, g) {
						e.R.OK("APPEND", key, e.P.InstrPos(in), "append on package-level slice "+g+", which is a composite literal never re-assigned: cap == len, so append reallocates and the global is not written")
					} else {
						e.R.Fail("APPEND", key, e.P.InstrPos(in), "append on package-level slice "+g+" whose capacity may exceed its length: the appended bytes land in shared memory")
					}
					continue
				}
				// a caller's []byte parameter, without copy
				root := first
				for {
					if ct, ok := root.(*ssa.ChangeType); ok {
						root = ct.X
						continue
					}
					break
				}
				if p, ok := root.(*ssa.Parameter); ok && exported(fn) {
					if sl, ok := p.Type().Underlying().(*types.Slice); ok {
						if bt, ok := sl.Elem().Underlying().(*types.Basic); ok && bt.Kind() == types.Byte {
							n++
							e.R.Fail("APPEND", key, e.P.InstrPos(in), "append directly on the caller's byte slice "+p.Name()+": with spare capacity the appended bytes are written into the caller's array (data race between concurrent calls on a shared key)")
						}
					}
				}
			}
		}
	}
	e.R.Floor("APPEND", 2)
}

// inputsNotWritten: the serializers/verifiers do not write through memory
// reachable from their (pointer, slice, map) inputs.
func inputsNotWritten(e *Env, roots []*ssa.Function, scope map[*ssa.Function]bool) {
	derived := map[ssa.Value]bool{}
	for _, r := range roots {
		for _, p := range r.Params {
			switch p.Type().Underlying().(type) {
			case *types.Pointer, *types.Slice, *types.Map, *types.Struct:
				if isSinkType(p.Type()) {
					continue // the destination writer / logger is meant to be written
				}
				derived[p] = true
			}
		}
	}
	pointerLike := func(t types.Type) bool {
		switch t.Underlying().(type) {
		case *types.Pointer, *types.Slice, *types.Map, *types.Struct, *types.Interface:
			return !isSinkType(t)
		}
		return false
	}
	holder := map[ssa.Value]bool{} // local slots (spilled parameters, captured variables) holding a derived value
	changed := true
	for changed {
		changed = false
		mark := func(v ssa.Value) {
			if v != nil && !derived[v] && pointerLike(v.Type()) {
				derived[v] = true
				changed = true
			}
		}
		for fn := range scope {
			for _, b := range fn.Blocks {
				for _, in := range b.Instrs {
					switch x := in.(type) {
					case *ssa.Store:
						if derived[x.Val] {
							switch ad := x.Addr.(type) {
							case *ssa.Alloc, *ssa.FreeVar:
								if !holder[ad] {
									holder[ad] = true
									changed = true
								}
							}
						}
					case *ssa.FieldAddr:
						if derived[x.X] {
							mark(x)
						}
					case *ssa.Field:
						if derived[x.X] {
							mark(x)
						}
					case *ssa.IndexAddr:
						if derived[x.X] {
							mark(x)
						}
					case *ssa.Index:
						if derived[x.X] {
							mark(x)
						}
					case *ssa.Lookup:
						if derived[x.X] {
							mark(x)
						}
					case *ssa.Slice:
						if derived[x.X] {
							mark(x)
						}
					case *ssa.UnOp:
						if x.Op == token.MUL && (derived[x.X] || holder[x.X]) {
							mark(x)
						}
					case *ssa.ChangeType:
						if derived[x.X] {
							mark(x)
						}
					case *ssa.Phi:
						for _, ed := range x.Edges {
							if derived[ed] {
								mark(x)
							}
						}
					case *ssa.Extract:
						if derived[x.Tuple] {
							mark(x)
						}
					case *ssa.Next:
						if rg, ok := x.Iter.(*ssa.Range); ok && derived[rg.X] {
							if !derived[x] {
								derived[x] = true
								changed = true
							}
						}
					case *ssa.MakeClosure:
						if cf, ok := x.Fn.(*ssa.Function); ok {
							for i, bnd := range x.Bindings {
								if i < len(cf.FreeVars) && (holder[bnd] || derivedAlloc(bnd, derived)) {
									if !holder[cf.FreeVars[i]] {
										holder[cf.FreeVars[i]] = true
										changed = true
									}
								}
								if i < len(cf.FreeVars) && derived[bnd] {
									if !derived[cf.FreeVars[i]] {
										derived[cf.FreeVars[i]] = true
										changed = true
									}
								}
							}
						}
					case ssa.CallInstruction:
						cc := x.Common()
						var args []ssa.Value
						if cc.IsInvoke() {
							args = append(args, cc.Value)
						}
						args = append(args, cc.Args...)
						for _, cal := range e.P.ModuleCallees(e.P.VTA(), x) {
							if !scope[cal] {
								continue
							}
							for i, a := range args {
								if derived[a] && i < len(cal.Params) {
									mark(cal.Params[i])
								}
							}
						}
					}
				}
			}
		}
	}
	e.R.Counts["input_derived_values"] = len(derived)
	mutators := map[string]bool{"(http.Header).Add": true, "(http.Header).Set": true, "(http.Header).Del": true, "(url.Values).Set": true, "(url.Values).Add": true}
	bad := 0
	for _, fn := range sortedFuncs(scope) {
		for _, b := range fn.Blocks {
			for _, in := range b.Instrs {
				switch x := in.(type) {
				case *ssa.Store:
					base := x.Addr
					if fa, ok := base.(*ssa.FieldAddr); ok {
						base = fa.X
					} else if ia, ok := base.(*ssa.IndexAddr); ok {
						base = ia.X
					}
					if derived[base] {
						if _, fresh := base.(*ssa.Alloc); fresh {
							continue
						}
						bad++
						e.R.Fail("INPUTS", fmt.Sprintf("%s:store(%s)", load.FuncName(fn), short(prov.Of(x.Addr))), e.P.InstrPos(in),
							"a serializer/verifier stores into memory reachable from its input: shared read-only inputs are modified (data race under concurrent use, different bytes on the next call)")
					}
				case *ssa.MapUpdate:
					if derived[x.Map] {
						bad++
						e.R.Fail("INPUTS", fmt.Sprintf("%s:mapupdate(%s)", load.FuncName(fn), short(prov.Of(x.Map))), e.P.InstrPos(in), "a serializer/verifier updates a map reachable from its input")
					}
				case *ssa.Call:
					name := prov.CalleeName(&x.Call)
					if mutators[name] && len(x.Call.Args) > 0 && derived[x.Call.Args[0]] {
						bad++
						e.R.Fail("INPUTS", fmt.Sprintf("%s:%s", load.FuncName(fn), name), e.P.InstrPos(in), "a serializer/verifier mutates a header map reachable from its input")
					}
					if idx, ok := writerArgs[name]; ok && idx < len(x.Call.Args) && derived[x.Call.Args[idx]] {
						bad++
						e.R.Fail("INPUTS", fmt.Sprintf("%s:%s", load.FuncName(fn), name), e.P.InstrPos(in), "a serializer/verifier writes into a buffer reachable from its input through "+name)
					}
				}
			}
		}
	}
	if bad == 0 {
		e.R.OK("INPUTS", "serializers-do-not-write-inputs", "-", fmt.Sprintf("no store, map update, header mutator or buffer writer in the %d functions of the serializer/verifier call trees targets memory derived from an entry point's input (%d derived values tracked)", len(scope), len(derived)))
	}
}

func derivedAlloc(v ssa.Value, derived map[ssa.Value]bool) bool {
	al, ok := v.(*ssa.Alloc)
	if !ok {
		return false
	}
	for _, ref := range *al.Referrers() {
		if st, ok := ref.(*ssa.Store); ok && st.Addr == al && derived[st.Val] {
			return true
		}
	}
	return false
}

func noNondeterminism(e *Env, scope map[*ssa.Function]bool) {
	banned := []string{"time.Now", "os.Getenv", "os.Hostname", "os.Getpid", "rand.Int", "rand.Intn", "rand.Read", "rand.Seed", "rand.Float64", "rand.Uint32", "rand.Uint64", "rand.Perm", "rand.Shuffle"}
	bad := 0
	for _, fn := range sortedFuncs(scope) {
		for _, b := range fn.Blocks {
			for _, in := range b.Instrs {
				c, ok := in.(*ssa.Call)
				if !ok {
					continue
				}
				name := prov.CalleeName(&c.Call)
				for _, bn := range banned {
					if name == bn {
						// crypto/rand.Read is nondeterministic too, math/rand as well: both named rand.*
						bad++
						e.R.Fail("NONDET", load.FuncName(fn)+":"+name, e.P.InstrPos(in), "a serializer reads "+name+": its output is not a function of its input")
					}
				}
				for _, a := range c.Call.Args {
					if strings.Contains(prov.Of(a), "global:rand.Reader") && name != "signingalgorithm.SigningAlgorithmForPrivateKey" {
						bad++
						e.R.Fail("NONDET", load.FuncName(fn)+":rand.Reader->"+name, e.P.InstrPos(in), "crypto/rand.Reader is used outside ECDSA signing")
					}
				}
			}
		}
	}
	if bad == 0 {
		e.R.OK("NONDET", "serializers-have-no-clock-env-random", "-", "no call to time.Now / os.Getenv / os.Hostname / math-rand in the serializer and verifier call trees; rand.Reader only feeds SigningAlgorithmForPrivateKey")
	}
}
