// Package props holds the per-property rule tables and drivers.
package props

import (
	"encoding/json"
	"fmt"
	"os"
	"sort"

	"wpverif/internal/core"
	"wpverif/internal/load"
)

// Env is what a property check gets.
type Env struct {
	R     *core.Report
	P     *load.Program
	Repo  string
	Verif string
	Tier  string
}

type checkFn func(e *Env)

var registry = map[string]checkFn{}

func register(id string, f checkFn) { registry[id] = f }

func IDs() []string {
	var ids []string
	for k := range registry {
		ids = append(ids, k)
	}
	sort.Strings(ids)
	return ids
}

// Run loads the program, runs F0 and the property's rules, writes evidence.
func Run(rep *core.Report, repo, verif string) int {
	f, ok := registry[rep.Prop]
	if !ok {
		fmt.Fprintf(os.Stderr, "INFRA: property %s has no registered check\n", rep.Prop)
		return 2
	}
	p, err := load.Load(repo, "")
	if err != nil {
		// a tree that does not load cannot be analysed: fail closed
		rep.Undecided("LOAD", "load", "-", err.Error())
		return rep.Finish(verif)
	}
	env := &Env{R: rep, P: p, Repo: repo, Verif: verif, Tier: rep.Tier}
	rep.Counts["packages"] = len(p.Pkgs)
	rep.Counts["functions"] = len(p.Funcs)
	rep.Trusted = []string{"go/types type checker", "golang.org/x/tools go/ssa construction and dominator tree",
		"callgraph/vta seeded by cha", "stdlib contracts named in the rules (io.Writer, io.ReadFull, io.CopyN, sort.Slice, bytes.Equal, crypto/*)"}
	f(env)
	F0(env)
	if rep.Tier == "thorough" {
		thoroughExtras(env, f)
	}
	return rep.Finish(verif)
}

// Replay re-evaluates the obligation recorded in a replay file.
func Replay(repo, verif, path string) int {
	b, err := os.ReadFile(path)
	if err != nil {
		fmt.Fprintln(os.Stderr, "INFRA:", err)
		return 2
	}
	var rf struct {
		Property string `json:"property"`
		Key      string `json:"key"`
		Config   string `json:"config"`
	}
	if err := json.Unmarshal(b, &rf); err != nil {
		fmt.Fprintln(os.Stderr, "INFRA:", err)
		return 2
	}
	f, ok := registry[rf.Property]
	if !ok {
		fmt.Fprintf(os.Stderr, "INFRA: property %s has no registered check\n", rf.Property)
		return 2
	}
	p, err := load.Load(repo, "")
	if err != nil {
		fmt.Println("tree does not load:", err)
		return 1
	}
	rep := core.NewReport(rf.Property, "quick")
	env := &Env{R: rep, P: p, Repo: repo, Verif: verif, Tier: "quick"}
	f(env)
	F0(env)
	found := false
	code := 0
	for _, o := range rep.Obls {
		if o.Key == rf.Key && (rf.Config == "" || rf.Config == o.Config) {
			found = true
			fmt.Printf("%s %s at %s [%s]: %s\n", o.Status, o.Key, o.Pos, o.Config, o.How)
			for _, w := range o.Witness {
				fmt.Println("   ", w)
			}
			if o.Status != core.Discharged {
				code = 1
			}
		}
	}
	if !found {
		fmt.Printf("obligation %s is not generated on the current tree (construct removed or renamed)\n", rf.Key)
		return 1
	}
	return code
}
