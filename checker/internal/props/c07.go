package props

import (
	"go/token"
	"strings"

	"wpverif/internal/gate"
	"wpverif/internal/prov"
)

func init() { register("C07", checkC07) }

const (
	tIBBytes = "call:(*integrityblock.IntegrityBlock).CborBytes(param:ibs.IntegrityBlock)#0"
	tIBData  = "call:integrityblock.GenerateDataToBeSigned(param:ibs.WebBundleHash," + tIBBytes + ",param:signatureAttributes)#0"
	tIBSig   = "invoke:integrityblock.ISigningStrategy.Sign(param:ibs.SigningStrategy," + tIBData + ")#0"
	tObtain  = "call:integrityblock.ObtainIntegrityBlock(param:bundleFileIn)"
	tPK      = "invoke:integrityblock.ISigningStrategy.GetPublicKey(local:ibs.SigningStrategy)#0"
	tSizeDif = "(invoke:os.FileInfo.Size(call:(*os.File).Stat(param:bundleFile)#0) - call:integrityblock.readWebBundlePayloadLength(param:bundleFile)#0)"
)

func checkC07(e *Env) {
	e.R.Explanation = "Decided (structural necessary conditions of C07): (a) in SignAndAddNewSignature the call that prepends the signature is reachable only after CborBytes ok, Deterministic(block) ok, GenerateDataToBeSigned(hash, block, attributes) ok, Sign(data) ok and VerifyEd25519Signature(publicKey, that signature, that data) ok (ed25519.Verify true), with the prepended signature being that same Sign result; (b) ObtainIntegrityBlock succeeds only when fileSize - declaredLength is neither negative nor non-zero; (c) the new signature is the first element of the new stack, the old stack follows; (d) GenerateDataToBeSigned writes all three inputs with 8-byte big-endian lengths; (e) the sign-bundle pipeline tests every step's error and writes the block before copying the original from the returned offset; (f) the Web Bundle ID is lower(base32(key || suffix)) with suffix {0,1,2}. " +
		"Not decided: that signatures verify (crypto), SHA-512 content, base32 alphabet, byte equality of the copied file, the order of the three data-to-be-signed parts (pinned by TestGenerateDataToBeSigned)."
	e.R.RuleText = "E2 must-pass-through to a call site (dominating gates) and to success exits; must-use coverage; store/ordering rules; constant extraction"
	// OUTFILE (shared with C20): the signed file is written to a truncated or fresh file, so nothing follows the original bytes (seed C07-g)
	outputFiles(e)
	// ERRUSE: no error of a data-fallible module call is lost on the way (shared rule, erruse.go)
	moduleErrorsConsumed(e, erruseEntries, 6, "integrityblock.")

	sa := e.fn("integrityblock.(*IntegrityBlockSigner).SignAndAddNewSignature")
	gs := []gate.Gate{
		gate.CallOK("I.cbor", "(*integrityblock.IntegrityBlock).CborBytes", "param:ibs.IntegrityBlock"),
		gate.CallOK("I.deterministic", "cbor.Deterministic", tIBBytes),
		gate.CallOK("I.data", "integrityblock.GenerateDataToBeSigned", "param:ibs.WebBundleHash", tIBBytes, "param:signatureAttributes"),
		gate.CallOK("I.sign", "invoke:integrityblock.ISigningStrategy.Sign", "param:ibs.SigningStrategy", tIBData),
		gate.CallOK("I.verify", "integrityblock.VerifyEd25519Signature", "param:ed25519publicKey", tIBSig, tIBData),
		gate.CallBool("I.ed25519", "ed25519.Verify", true, "param:publicKey", "param:dataToBeSigned", "param:signature"),
	}
	e.dominatedByGates("GATE", sa, noCfg, "(*integrityblock.IntegrityBlock).addNewSignatureToIntegrityBlock",
		[]string{"param:ibs.IntegrityBlock", "param:signatureAttributes", tIBSig}, gs...)
	e.requireGates("GATE", sa, gate.Outcome{Kind: gate.ErrNil, Idx: 0}, noCfg,
		append(gs, gate.CallInstr("I.add", "(*integrityblock.IntegrityBlock).addNewSignatureToIntegrityBlock", "param:ibs.IntegrityBlock", "param:signatureAttributes", tIBSig))...)

	ob := e.fn("integrityblock.ObtainIntegrityBlock")
	e.requireGates("GATE", ob, gate.Outcome{Kind: gate.ErrNil, Idx: 2}, noCfg,
		gate.CallOK("O.length", "integrityblock.readWebBundlePayloadLength", "param:bundleFile"),
		gate.CallOK("O.stat", "(*os.File).Stat", "param:bundleFile"),
		gate.Cmp("O.nonneg", tSizeDif, token.GEQ, "const:0"),
		either("O.zero", "fileSize - declaredLength == 0 (or, being non-negative, <= 0)", gate.Cmp("", tSizeDif, token.EQL, "const:0"), gate.Cmp("", tSizeDif, token.LEQ, "const:0")),
	)
	e.requireResult("RESULT", ob, gate.Outcome{Kind: gate.ErrNil, Idx: 2}, 0, "call:integrityblock.generateEmptyIntegrityBlock()", "a fresh empty integrity block")
	e.requireResult("RESULT", ob, gate.Outcome{Kind: gate.ErrNil, Idx: 2}, 1, "{"+tSizeDif+"|const:0}", "fileSize - declaredLength (zero here)")

	add := e.fn("integrityblock.(*IntegrityBlock).addNewSignatureToIntegrityBlock")
	e.requireStore("RESULT", add, "alloc:integrityblock.IntegritySignature.Signature", "param:signature", "the signature passed in")
	e.requireStore("RESULT", add, "alloc:integrityblock.IntegritySignature.SignatureAttributes", "param:signatureAttributes", "the attributes passed in")
	// prepend: append([]T{new}, old...), or a slice of len(old)+1 with new at
	// index 0 and old copied behind it
	firstOf(e,
		func(e *Env) {
			e.requireStore("RESULT", add, "param:integrityBlock.SignatureStack", "append(alloc:[1]*integrityblock.IntegritySignature,param:integrityBlock.SignatureStack)", "the new one-element slice followed by the old stack (prepend)")
			e.requireStore("RESULT", add, "alloc:[1]*integrityblock.IntegritySignature[const:0]", "alloc:integrityblock.IntegritySignature", "the new signature object")
		},
		func(e *Env) {
			const tNew = "make([]*integrityblock.IntegritySignature,(len(param:integrityBlock.SignatureStack) + const:1))"
			e.requireStore("RESULT", add, "param:integrityBlock.SignatureStack", tNew, "a new slice one longer than the old stack (prepend)")
			e.requireStore("RESULT", add, tNew+"[const:0]", "alloc:integrityblock.IntegritySignature", "the new signature object at the front")
			e.requireGates("RESULT", add, gate.Outcome{Kind: gate.AnyReturn}, noCfg,
				gate.CallInstr("A.copy-old", "builtin:copy", "slice("+tNew+",const:1,)", "param:integrityBlock.SignatureStack"))
		})

	gd := e.fn("integrityblock.GenerateDataToBeSigned")
	out := gate.Outcome{Kind: gate.ErrNil, Idx: 1}
	be := func(x string) gate.Gate {
		return beWrite("D.len("+x+")", "local:buf", 8, "conv(len("+x+"))", false)
	}
	tAttr := "call:(*bytes.Buffer).Bytes(local:attributesBytesBuf)"
	e.requireGates("COVER", gd, out, noCfg,
		gate.CallOK("D.attrs.encode", "(integrityblock.SignatureAttributesMap).cborBytes", "param:signatureAttributes", "call:cbor.NewEncoder(local:attributesBytesBuf)"),
		be("param:webBundleHash"), gate.CallInstr("D.hash", "(*bytes.Buffer).Write", "local:buf", "param:webBundleHash"),
		be("param:integrityBlockBytes"), gate.CallInstr("D.block", "(*bytes.Buffer).Write", "local:buf", "param:integrityBlockBytes"),
		be(tAttr), gate.CallInstr("D.attrs", "(*bytes.Buffer).Write", "local:buf", tAttr),
	)
	e.requireResult("COVER", gd, out, 0, "call:(*bytes.Buffer).Bytes(local:buf)", "the data-to-be-signed buffer")

	// sign-bundle pipeline
	sw := e.fn("bundle/cmd/sign-bundle.SignWithIntegrityBlock")
	tBlock := "call:(*integrityblock.IntegrityBlock).CborBytes(" + tObtain + "#0)#0"
	e.requireGates("GATE", sw, gate.Outcome{Kind: gate.ErrNil, Idx: 0}, noCfg,
		gate.CallOK("P.obtain", "integrityblock.ObtainIntegrityBlock", "param:bundleFileIn"),
		gate.CallOK("P.hash", "integrityblock.ComputeWebBundleSha512", "param:bundleFileIn", tObtain+"#1"),
		gate.CallOK("P.pubkey", "invoke:integrityblock.ISigningStrategy.GetPublicKey", "local:ibs.SigningStrategy"),
		gate.CallOK("P.sign", "(*integrityblock.IntegrityBlockSigner).SignAndAddNewSignature", "local:ibs", tPK, "call:integrityblock.GenerateSignatureAttributesWithPublicKey("+tPK+")"),
		gate.CallOK("P.cbor", "(*integrityblock.IntegrityBlock).CborBytes", tObtain+"#0"),
		gate.CallOK("P.deterministic", "cbor.Deterministic", tBlock),
		gate.CallOK("P.write", "sign-bundle.writeOutput", "param:bundleFileIn", tBlock, tObtain+"#1", "param:bundleFileOut"),
	)
	e.requireStore("RESULT", sw, "local:ibs.WebBundleHash", "call:integrityblock.ComputeWebBundleSha512(param:bundleFileIn,"+tObtain+"#1)#0", "the SHA-512 of the file from the returned offset")
	e.requireStore("RESULT", sw, "local:ibs.IntegrityBlock", tObtain+"#0", "the obtained integrity block")
	e.requireStore("RESULT", sw, "local:ibs.SigningStrategy", "param:signingStrategy", "the caller's signing strategy")
	wo := e.fn("bundle/cmd/sign-bundle.writeOutput")
	wBlock := gate.CallInstr("W.block", "(*os.File).Write", "param:signedBundleFile", "param:integrityBlockBytes")
	wSeek := gate.CallInstr("W.seek", "invoke:io.ReadSeeker.Seek", "param:bundleFile", "param:originalIntegrityBlockOffset", "const:0")
	wCopy := gate.CallInstr("W.copy", "io.Copy", "param:signedBundleFile", "param:bundleFile")
	e.requireGates("COVER", wo, gate.Outcome{Kind: gate.ErrNil, Idx: 0}, noCfg, wBlock, wSeek, gate.CallOK("W.copy.ok", "io.Copy", "param:signedBundleFile", "param:bundleFile"))
	e.callOrder("ORDER", "block-before-copy", wo, wBlock, wCopy, "the integrity block is written before the original bundle is copied")
	e.callOrder("ORDER", "seek-before-copy", wo, wSeek, wCopy, "the input is positioned at the bundle offset before it is copied")
	ch := e.fn("integrityblock.ComputeWebBundleSha512")
	hSeek := gate.CallInstr("H.seek", "invoke:io.ReadSeeker.Seek", "param:bundleFile", "param:offset", "const:0")
	hCopy := gate.CallInstr("H.copy", "io.Copy", "*sha512.New()*", "param:bundleFile")
	e.requireGates("COVER", ch, gate.Outcome{Kind: gate.ErrNil, Idx: 1}, noCfg, hSeek, gate.CallOK("H.copy.ok", "io.Copy", "*sha512.New()*", "param:bundleFile"))
	e.callOrder("ORDER", "seek-before-hash", ch, hSeek, hCopy, "the file is positioned at the offset before hashing")

	// (f) web bundle id
	gid := e.fn("integrityblock/webbundleid.GetWebBundleId")
	e.requireResult("RESULT", gid, gate.Outcome{Kind: gate.AnyReturn}, 0,
		"call:strings.ToLower(call:(*base32.Encoding).EncodeToString(global:base32.StdEncoding,append(*param:ed25519publicKey*,global:webbundleid.webBundleIdSuffix)))",
		"lower(base32(key || suffix))")
	if in := e.fn("integrityblock/webbundleid.init"); in != nil {
		arr := constArrays(in)["alloc:[3]byte"]
		if strings.Join(arr, ",") == "0,1,2" {
			e.R.OK("TABLE", "web-bundle-id-suffix", e.P.Pos(gid.Pos()), "suffix is 00 01 02")
		} else {
			e.R.Fail("TABLE", "web-bundle-id-suffix", e.P.Pos(in.Pos()), "suffix is "+strings.Join(arr, " ")+", specification wants 00 01 02")
		}
	}
	e.R.Floor("GATE", 20)
	e.R.Floor("COVER", 10)
	e.R.Floor("RESULT", 9)
	e.R.Floor("ORDER", 3)
	_ = prov.Of
}
