package props

import (
	"fmt"
	"go/constant"
	"go/types"
	"strings"

	"golang.org/x/tools/go/ssa"

	"wpverif/internal/gate"
	"wpverif/internal/load"
	"wpverif/internal/prov"
)

func init() { register("C20", checkC20) }

func checkC20(e *Env) {
	e.R.Explanation = "Decided (narrow structural necessary conditions of C20): (a) gen-bundle never hands a file-system path (filepath.Rel/ToSlash/Join result, or a filepath.Walk path) to url.Parse / (*url.URL).Parse unescaped: the relative path travels in the Path field of a url.URL (or through url.PathEscape), so '#', '?', '%' and ':' in file names are percent-encoded; (b) gen-signedexchange writes the exchange only after e.Verify succeeded unless -ignoreErrors is set, and dump-bundle tests for an integrity block (error honoured, result false) before bundle.Read; sign-bundle's integrity-block pipeline is covered by C07; (c) the private-key types the sign-bundle sub-commands assert are among the types ParsePrivateKey can return. " +
		"Not decided: everything else in the statement — process composition, http.ServeFile behaviour, HAR handling, flags, I/O faults of the tools."
	e.R.RuleText = "E10 path-to-URL taint by provenance; dominating-gate rule on the main packages; E7 type-set inclusion"

	// (a) a string that derives from a file-system path must never be parsed as a URL
	// reference, not even after EscapedPath()/PathEscape: both leave ':' alone, so a colon
	// in the first segment becomes a scheme.  Only (*url.URL).String() of a URL whose Path
	// field holds the path is safe to re-parse (it prefixes "./" when needed).
	n := 0
	for _, fn := range e.P.Funcs {
		if !strings.HasPrefix(load.FuncName(fn), "bundle/cmd/gen-bundle.") {
			continue
		}
		for _, b := range fn.Blocks {
			for _, in := range b.Instrs {
				c, ok := in.(*ssa.Call)
				if !ok {
					continue
				}
				name := prov.CalleeName(&c.Call)
				if name != "url.Parse" && name != "(*url.URL).Parse" && name != "url.ParseRequestURI" {
					continue
				}
				arg := c.Call.Args[len(c.Call.Args)-1]
				n++
				key := load.FuncName(fn) + ":" + name + "#" + itoa(n)
				if why := fsDerived(arg, 0, map[ssa.Value]bool{}); why != "" {
					e.R.Fail("PATHURL", key, e.P.InstrPos(in), "a string derived from a file-system path is parsed as a URL reference: '#', '?', '%' or a ':' in the first segment change the URL's structure", "argument "+short(prov.Of(arg)), "derivation: "+why)
				} else {
					e.R.OK("PATHURL", key, e.P.InstrPos(in), "argument does not derive from a file-system path: "+short(prov.Of(arg)))
				}
			}
		}
	}
	cp := e.fn("bundle/cmd/gen-bundle.convertPathToURL")
	if cp != nil {
		// accepted idioms: the path travels in url.URL{Path: ...} and comes out through String()/EscapedPath(),
		// or it is escaped with url.PathEscape
		viaField := false
		for _, b := range cp.Blocks {
			for _, in := range b.Instrs {
				if st, ok := in.(*ssa.Store); ok && prov.Of(st.Addr) == "alloc:url.URL.Path" && strings.Contains(prov.Of(st.Val), "call:filepath.") {
					viaField = true
				}
			}
		}
		ctx := gate.New(e.P, e.P.VTA())
		okAll := true
		var got []string
		for _, r := range ctx.SuccessReturns(cp, gate.Outcome{Kind: gate.ErrNil, Idx: 1}) {
			t := prov.Of(r.Results[0])
			got = append(got, short(t))
			escaped := strings.Contains(t, "call:url.PathEscape(") ||
				(viaField && strings.Contains(t, "alloc:url.URL") && (strings.HasPrefix(t, "call:(*url.URL).String(") || strings.HasPrefix(t, "call:(*url.URL).EscapedPath(")))
			if !escaped {
				okAll = false
			}
		}
		key := "bundle/cmd/gen-bundle.convertPathToURL:path-is-escaped"
		if okAll && len(got) > 0 {
			e.R.OK("PATHURL", key, e.P.Pos(cp.Pos()), "the URL returned is the string form of a url.URL whose Path field holds the relative file path (or a PathEscape'd path)")
		} else {
			e.R.Fail("PATHURL", key, e.P.Pos(cp.Pos()), "the URL returned for a file is not built from an escaped form of its relative path", got...)
		}
	}
	e.requireGates("PATHURL", cp, gate.Outcome{Kind: gate.ErrNil, Idx: 1}, noCfg, gate.CallOK("U.rel", "filepath.Rel", "param:baseDir", "param:path"))
	fd := e.fn("bundle/cmd/gen-bundle.fromDir$1")
	e.requireGates("PATHURL", fd, gate.Outcome{Kind: gate.ErrNil, Idx: 0}, noCfg,
		gate.CallOK("U.convert", "gen-bundle.convertPathToURL", "param:path", "free:baseDir", "free:baseURL"))

	// (b)
	run := e.fn("signedexchange/cmd/gen-signedexchange.run")
	e.gatesBefore("GATE", run, noCfg, "e.Write(f)", func(in ssa.Instruction) bool {
		c, ok := in.(*ssa.Call)
		return ok && prov.CalleeName(&c.Call) == "(*signedexchange.Exchange).Write"
	}, either("G.verified-or-ignored", "-ignoreErrors set, or e.Verify(...) ok",
		gate.BoolVal("", "global:main.flagIgnoreErrors", true),
		gate.CallBool("", "(*signedexchange.Exchange).Verify", true, "call:signedexchange.NewExchange(*)", "*")))
	rb := e.fn("bundle/cmd/dump-bundle.ReadBundleFromFile")
	e.gatesBefore("GATE", rb, noCfg, "bundle.Read", func(in ssa.Instruction) bool {
		c, ok := in.(*ssa.Call)
		return ok && prov.CalleeName(&c.Call) == "bundle.Read"
	}, gate.CallOK("D.probe", "integrityblock.WebBundleHasIntegrityBlock", "call:os.Open(param:path)#0"),
		gate.BoolVal("D.no-block", "call:integrityblock.WebBundleHasIntegrityBlock(call:os.Open(param:path)#0)#0", false))

	// (c)
	sup := e.fn("internal/signingalgorithm.typeSupportedPKCS8key")
	if sup != nil {
		var cases []string
		for _, b := range sup.Blocks {
			for _, in := range b.Instrs {
				if ta, ok := in.(*ssa.TypeAssert); ok && ta.CommaOk {
					cases = append(cases, shortT(ta.AssertedType))
				}
			}
		}
		var asserted []string
		for _, fn := range e.P.Funcs {
			if !strings.HasPrefix(load.FuncName(fn), "bundle/cmd/sign-bundle.") {
				continue
			}
			for _, b := range fn.Blocks {
				for _, in := range b.Instrs {
					if ta, ok := in.(*ssa.TypeAssert); ok && strings.Contains(shortT(ta.AssertedType), "PrivateKey") {
						asserted = append(asserted, shortT(ta.AssertedType))
					}
				}
			}
		}
		subsetOf(e, "private-key-types", e.P.Pos(sup.Pos()), dedup(asserted), dedup(cases), "key types the sign-bundle sub-commands require", "key types ParsePrivateKey can return")
	}
	// (c') a PEM block that is not a usable key is skipped, not fatal: key files
	// written by "openssl ecparam -genkey" start with an EC PARAMETERS block
	if ppk := e.fn("internal/signingalgorithm.ParsePrivateKey"); ppk != nil {
		skipUnusableBlocks(e, ppk)
	}
	// (d) output files: what the tools write replaces the previous content
	outputFiles(e)
	e.R.Floor("PATHURL", 4)
	e.R.Floor("GATE", 3)
	e.R.Floor("TABLE", 1)
	e.R.Floor("OUTFILE", 6)
}

// outputFiles (rule OUTFILE): every file the module opens for writing with
// creation replaces what was there: os.Create, or os.OpenFile whose constant
// flags contain O_TRUNC, O_EXCL or O_APPEND (or the function truncates the
// file explicitly).  A stale tail after a shorter output breaks the
// end-of-file length field of a signed bundle and the framing of every
// other artifact.
func outputFiles(e *Env) {
	flag := func(name string) int64 {
		if pkg := e.P.Prog.ImportedPackage("os"); pkg != nil {
			if c, ok := pkg.Pkg.Scope().Lookup(name).(*types.Const); ok {
				if v, ok := constant.Int64Val(c.Val()); ok {
					return v
				}
			}
		}
		e.R.Undecided("OUTFILE", "os."+name, "-", "cannot resolve os."+name)
		return 0
	}
	oWRONLY, oRDWR, oAPPEND, oCREATE, oEXCL, oTRUNC := flag("O_WRONLY"), flag("O_RDWR"), flag("O_APPEND"), flag("O_CREATE"), flag("O_EXCL"), flag("O_TRUNC")
	for _, fn := range e.P.Funcs {
		if !e.P.InModule(fn) {
			continue
		}
		n := 0
		truncates := false
		for _, b := range fn.Blocks {
			for _, in := range b.Instrs {
				if c, ok := in.(ssa.CallInstruction); ok && prov.CalleeName(c.Common()) == "(*os.File).Truncate" {
					truncates = true
				}
			}
		}
		for _, b := range fn.Blocks {
			for _, in := range b.Instrs {
				c, ok := in.(*ssa.Call)
				if !ok {
					continue
				}
				switch prov.CalleeName(&c.Call) {
				case "os.Create":
					n++
					e.R.OK("OUTFILE", fmt.Sprintf("%s:os.Create#%d", load.FuncName(fn), n), e.P.InstrPos(in), "os.Create truncates")
				case "os.OpenFile":
					n++
					key := fmt.Sprintf("%s:os.OpenFile#%d", load.FuncName(fn), n)
					k, ok := c.Call.Args[1].(*ssa.Const)
					if !ok {
						e.R.Undecided("OUTFILE", key, e.P.InstrPos(in), "open flags are not a constant")
						continue
					}
					fl := k.Int64()
					switch {
					case fl&(oWRONLY|oRDWR) == 0 || fl&oCREATE == 0:
						e.R.OK("OUTFILE", key, e.P.InstrPos(in), "not an output file creation")
					case fl&(oTRUNC|oEXCL|oAPPEND) != 0 || truncates:
						e.R.OK("OUTFILE", key, e.P.InstrPos(in), "existing content is replaced (O_TRUNC/O_EXCL/O_APPEND or explicit Truncate)")
					default:
						e.R.Fail("OUTFILE", key, e.P.InstrPos(in), "output file is opened with O_CREATE but without O_TRUNC/O_EXCL: a longer previous file leaves a stale tail behind the new content")
					}
				}
			}
		}
	}
}

// fsDerived: v is a string (or URL object) derived from a file-system path in a
// form that is unsafe to parse as a URL reference.  Returns "" or the derivation.
func fsDerived(v ssa.Value, d int, seen map[ssa.Value]bool) string {
	if d > 12 || seen[v] {
		return ""
	}
	seen[v] = true
	switch x := v.(type) {
	case *ssa.Parameter:
		// the path parameter of a filepath.Walk callback or of the conversion helper
		if n := prov.CanonParam(x.Parent(), x.Name()); n == "path" || n == "relPath" {
			return "parameter " + n
		}
	case *ssa.FreeVar:
		return ""
	case *ssa.Call:
		name := prov.CalleeName(&x.Call)
		switch {
		case strings.HasPrefix(name, "filepath."):
			return name
		case name == "(*url.URL).String":
			return "" // designed to re-parse to the same URL
		case name == "(*url.URL).EscapedPath" || name == "url.PathEscape" || name == "url.QueryEscape" || name == "(*url.URL).RequestURI":
			for _, a := range x.Call.Args {
				if w := fsDerived(a, d+1, seen); w != "" {
					return name + "(" + w + ") — escaping keeps ':' and is not a URL reference"
				}
			}
		case strings.HasPrefix(name, "strings.") || name == "path.Join" || name == "path.Clean" || name == "fmt.Sprintf":
			for _, a := range x.Call.Args {
				if w := fsDerived(a, d+1, seen); w != "" {
					return name + "(" + w + ")"
				}
			}
		}
	case *ssa.Extract:
		return fsDerived(x.Tuple, d+1, seen)
	case *ssa.BinOp:
		if w := fsDerived(x.X, d+1, seen); w != "" {
			return w
		}
		return fsDerived(x.Y, d+1, seen)
	case *ssa.Phi:
		for _, ed := range x.Edges {
			if w := fsDerived(ed, d+1, seen); w != "" {
				return w
			}
		}
	case *ssa.Convert:
		return fsDerived(x.X, d+1, seen)
	case *ssa.ChangeType:
		return fsDerived(x.X, d+1, seen)
	case *ssa.MakeInterface:
		return fsDerived(x.X, d+1, seen)
	case *ssa.UnOp:
		return fsDerived(x.X, d+1, seen)
	case *ssa.Alloc:
		// a url.URL literal whose Path (or any string field) holds a file-system path
		for _, ref := range *x.Referrers() {
			switch r := ref.(type) {
			case *ssa.FieldAddr:
				for _, r2 := range *r.Referrers() {
					if st, ok := r2.(*ssa.Store); ok && st.Addr == r {
						if w := fsDerived(st.Val, d+1, seen); w != "" {
							return "url.URL{" + w + "}"
						}
					}
				}
			case *ssa.Store:
				if r.Addr == x {
					if w := fsDerived(r.Val, d+1, seen); w != "" {
						return w
					}
				}
			}
		}
	case *ssa.Slice:
		return fsDerived(x.X, d+1, seen)
	}
	return ""
}

// skipUnusableBlocks (rule KEYFILE): ParsePrivateKey walks the PEM blocks of
// the file in a loop, and the failing side of each attempt to parse a block as
// a key leads back to the loop header, never to a return: only malformed PEM
// or running out of blocks ends the search.
func skipUnusableBlocks(e *Env, fn *ssa.Function) {
	key := "internal/signingalgorithm.ParsePrivateKey:unusable-block-is-skipped"
	var header *ssa.BasicBlock
	for _, body := range naturalLoops(fn) {
		for _, b := range fn.Blocks {
			if !body[b] {
				continue
			}
			for _, in := range b.Instrs {
				if c, ok := in.(*ssa.Call); ok && prov.CalleeName(&c.Call) == "pem.Decode" {
					// the header is the block of the loop that dominates all others
					for _, h := range fn.Blocks {
						if body[h] {
							dom := true
							for x := range body {
								if !h.Dominates(x) {
									dom = false
								}
							}
							if dom {
								header = h
							}
						}
					}
				}
			}
		}
	}
	if header == nil {
		e.R.Fail("KEYFILE", key, e.P.Pos(fn.Pos()), "ParsePrivateKey does not loop over the PEM blocks of the key file: a leading block that is not a key (EC PARAMETERS) ends the search")
		return
	}
	n := 0
	for _, b := range fn.Blocks {
		ifi, ok := b.Instrs[len(b.Instrs)-1].(*ssa.If)
		if !ok {
			continue
		}
		for side, succ := range b.Succs {
			failing := false
			for _, f := range gate.EdgeFacts(ifi.Cond, side == 0) {
				if f.Kind == gate.FErrSet && f.Call != nil && strings.Contains(prov.CalleeName(&f.Call.Call), "PrivateKeyBlock") {
					failing = true
				}
			}
			if !failing {
				continue
			}
			n++
			// every path from succ reaches the loop header before any return
			seen := map[*ssa.BasicBlock]bool{}
			stack := []*ssa.BasicBlock{succ}
			bad := ""
			for len(stack) > 0 && bad == "" {
				x := stack[len(stack)-1]
				stack = stack[:len(stack)-1]
				if x == header || seen[x] {
					continue
				}
				seen[x] = true
				if _, isRet := x.Instrs[len(x.Instrs)-1].(*ssa.Return); isRet {
					bad = e.P.InstrPos(x.Instrs[len(x.Instrs)-1])
				}
				stack = append(stack, x.Succs...)
			}
			k := fmt.Sprintf("%s#%d", key, n)
			if bad == "" {
				e.R.OK("KEYFILE", k, e.P.InstrPos(ifi), "a block that does not parse as a key is skipped: the search continues with the next block")
			} else {
				e.R.Fail("KEYFILE", k, e.P.InstrPos(ifi), "a block that does not parse as a key ends the search (return at "+bad+") although later blocks may hold the key")
			}
		}
	}
	if n == 0 {
		e.R.Fail("KEYFILE", key, e.P.Pos(fn.Pos()), "no tested attempt to parse a PEM block as a private key found")
	}
}
