package props

import (
	"go/token"
	"go/types"
	"sort"
	"strings"

	"golang.org/x/tools/go/ssa"

	"wpverif/internal/gate"
	"wpverif/internal/load"
	"wpverif/internal/prov"
)

func init() { register("C04", checkC04) }

func checkC04(e *Env) {
	e.R.Explanation = "Decided (structural necessary conditions of C04): (a) layering — inside internal/cbor the only functions that hand bytes to the destination are encodeTypedUint, encodeBytes, EncodeBool and EncodeMap, and the only caller of encodeMapHeader is EncodeMap; in the call tree of Bundle.WriteTo no staging buffer is written except through cbor.Encoder methods (no direct Write/WriteByte/WriteString on a bytes.Buffer), so every map on the wire went through EncodeMap (sorted copy, duplicates refused: re-checked here) and every head through encodeTypedUint (shortest form: re-checked here); the magic bytes come from Version.HeaderMagicBytes(); (b) table and bodies: the section-length table, the section count and the body loop use the same slice value, the table holds Name() and Len() of every section, every section is written, and each section type takes Len() and WriteTo from the same storage; 'responses' is appended last; (c) footer: writeFooter is called after the last section write with cw.Written, adds 9, and wraps the 8-byte big-endian value in a byte string; (d) byte accounting of CountingWriter on every path and WriteTo returns cw.Written. " +
		"Not decided: well-formedness as judged by an independent parser."
	e.R.RuleText = "who-may-call / who-may-write rules over the resolved call graph; E2 gates, for-all loops; SSA value identity for table/body agreement; E7 head table; E3 accounting rule"

	a, scope := destAnalysis(e, serializerEntries)
	// (a) leaf destination writes inside internal/cbor
	leafWriters := map[string]bool{}
	for _, st := range a.Sites(scope) {
		n := load.FuncName(st.Fn)
		if !strings.HasPrefix(n, "internal/cbor.") {
			continue
		}
		cn := prov.CalleeName(st.Call.Common())
		if strings.HasPrefix(cn, "invoke:io.Writer.") || cn == "io.Copy" || cn == "io.CopyN" || cn == "io.WriteString" || strings.HasPrefix(cn, "binary.") || strings.HasPrefix(cn, "fmt.F") ||
			cn == "(*bytes.Buffer).WriteTo" || cn == "(*bytes.Reader).WriteTo" {
			// a helper the rule tables do not know writes on behalf of the known
			// functions that call it
			for _, owner := range knownCallers(e, st.Fn, 0) {
				leafWriters[owner] = true
			}
		}
	}
	want := []string{"internal/cbor.(*Encoder).EncodeBool", "internal/cbor.(*Encoder).EncodeMap", "internal/cbor.(*Encoder).encodeBytes", "internal/cbor.(*Encoder).encodeTypedUint"}
	got := sortedKeys(leafWriters)
	if strings.Join(got, ",") == strings.Join(want, ",") {
		e.R.OK("LAYER", "cbor-destination-writers", "-", "only encodeTypedUint, encodeBytes, EncodeBool and EncodeMap hand bytes to the destination")
	} else {
		e.R.Fail("LAYER", "cbor-destination-writers", "-", "the set of functions in internal/cbor that write to the destination changed: a head or a map can now reach the wire without the canonical-form code",
			"got  "+strings.Join(got, ", "), "want "+strings.Join(want, ", "))
	}
	callers := map[string]bool{}
	for _, fn := range e.P.Funcs {
		if fn.Synthetic != "" {
			continue
		}
		for _, b := range fn.Blocks {
			for _, in := range b.Instrs {
				if ci, ok := in.(ssa.CallInstruction); ok && prov.CalleeName(ci.Common()) == "(*cbor.Encoder).encodeMapHeader" {
					callers[load.FuncName(fn)] = true
				}
			}
		}
	}
	if c := sortedKeys(callers); len(c) == 1 && c[0] == "internal/cbor.(*Encoder).EncodeMap" {
		e.R.OK("LAYER", "map-header-only-from-EncodeMap", "-", "encodeMapHeader is called only by EncodeMap")
	} else {
		e.R.Fail("LAYER", "map-header-only-from-EncodeMap", "-", "a map header can be written without the sort/duplicate logic of EncodeMap: callers "+strings.Join(sortedKeys(callers), ", "))
	}
	encodeMapObligations(e)
	encoderHeadTable(e)

	// staging buffers of the bundle writer are filled only through the encoder
	wt := e.fn("bundle.(*Bundle).WriteTo")
	wscope := e.P.Reachable(e.P.VTA(), wt)
	n := 0
	for _, fn := range sortedFuncs(wscope) {
		if !strings.HasPrefix(load.FuncName(fn), "bundle.") {
			continue
		}
		for _, b := range fn.Blocks {
			for _, in := range b.Instrs {
				c, ok := in.(*ssa.Call)
				if !ok || len(c.Call.Args) == 0 {
					continue
				}
				cn := prov.CalleeName(&c.Call)
				if !strings.HasPrefix(cn, "(*bytes.Buffer).") {
					continue
				}
				n++
				m := strings.TrimPrefix(cn, "(*bytes.Buffer).")
				key := load.FuncName(fn) + ":buffer." + m + "#" + itoa(n)
				switch m {
				case "Len", "Bytes", "WriteTo":
					e.R.OK("LAYER", key, e.P.InstrPos(in), "read-side use of a staging buffer")
				default:
					e.R.Fail("LAYER", key, e.P.InstrPos(in), "direct "+cn+" on a staging buffer of the bundle writer: bytes reach the bundle without passing the CBOR encoder")
				}
			}
		}
	}
	e.requireGates("GATE", wt, gate.Outcome{Kind: gate.ErrNil, Idx: 1}, noCfg,
		gate.CallOK("B.magic", "(*bundle.CountingWriter).Write", "call:bundle.NewCountingWriter(param:w)", "call:(bundle/version.Version).HeaderMagicBytes(param:b.Version)"),
		gate.CallOK("B.finalize", "(*bundle.indexSection).Finalize", "*", "param:b.Version"),
	)
	e.requireGates("GATE", wt, gate.Outcome{Kind: gate.ErrNil, Idx: 1}, bundleVersion("b1"),
		gate.CallOK("B.primary-url", "bundle.writePrimaryURL", "call:bundle.NewCountingWriter(param:w)", "param:b.PrimaryURL"))

	// (b) table and bodies
	tableAndBodies(e, wt)
	responsesLast(e, wt)
	wso := e.fn("bundle.writeSectionOffsets")
	o0 := gate.Outcome{Kind: gate.ErrNil, Idx: 0}
	e.requireGates("GATE", wso, o0, noCfg,
		gate.CallOK("T.count", "(*cbor.Encoder).EncodeArrayHeader", "call:cbor.NewEncoder(local:b)", "(len(param:sections) * const:2)"),
		gate.CallOK("T.wrap", "(*cbor.Encoder).EncodeByteString", "call:cbor.NewEncoder(param:w)", "call:(*bytes.Buffer).Bytes(local:b)"))
	forAllIterations(e, "FORALL", wso, "param:sections", noCfg,
		gate.CallOK("T.name", "(*cbor.Encoder).EncodeTextString", "call:cbor.NewEncoder(local:b)", "invoke:bundle.section.Name(param:sections[rangeidx])"))
	forAllIterations(e, "FORALL", wso, "param:sections", noCfg,
		gate.CallOK("T.len", "(*cbor.Encoder).EncodeUint", "call:cbor.NewEncoder(local:b)", "conv(invoke:bundle.section.Len(param:sections[rangeidx]))"))
	sectionStorage(e)
	moduleErrorsConsumed(e, erruseEntries, 20, "bundle.")

	// (c) footer
	wf := e.fn("bundle.writeFooter")
	e.requireGates("GATE", wf, o0, noCfg,
		// the 8-byte big-endian of offset+9, staged in a buffer or in an array, wrapped in a CBOR byte string
		either("F.size", "8-byte big-endian of offset + 9",
			gate.CallOK("", "binary.Write", "local:b", "global:binary.BigEndian", "(conv(param:offset) + const:9)"),
			gate.CallOK("", "(*cbor.Encoder).EncodeByteString", "call:cbor.NewEncoder(param:w)", "{be8((conv(param:offset) + const:9))|slice(be8((conv(param:offset) + const:9)),*)}")),
		either("F.wrap", "written as a CBOR byte string to w",
			gate.CallOK("", "(*cbor.Encoder).EncodeByteString", "call:cbor.NewEncoder(param:w)", "call:(*bytes.Buffer).Bytes(local:b)"),
			gate.CallOK("", "(*cbor.Encoder).EncodeByteString", "call:cbor.NewEncoder(param:w)", "{be8((conv(param:offset) + const:9))|slice(be8((conv(param:offset) + const:9)),*)}")))
	footerLast(e, wt)

	// (d) accounting
	// the counter handed to WriteTo starts at zero and wraps the destination it was given
	if ncw := e.fn("bundle.NewCountingWriter"); ncw != nil {
		e.requireResult("ACCOUNT", ncw, gate.Outcome{Kind: gate.AnyReturn}, 0, "alloc:bundle.CountingWriter", "a fresh CountingWriter (never the argument itself or a shared one)")
		e.requireStore("ACCOUNT", ncw, "alloc:bundle.CountingWriter.w", "param:w", "the destination passed in")
		zero := true
		for _, b := range ncw.Blocks {
			for _, in := range b.Instrs {
				if st, ok := in.(*ssa.Store); ok && prov.Of(st.Addr) == "alloc:bundle.CountingWriter.Written" && prov.Of(st.Val) != "const:0" {
					zero = false
				}
			}
		}
		if zero {
			e.R.OK("ACCOUNT", "bundle.NewCountingWriter:starts-at-zero", e.P.Pos(ncw.Pos()), "Written starts at 0")
		} else {
			e.R.Fail("ACCOUNT", "bundle.NewCountingWriter:starts-at-zero", e.P.Pos(ncw.Pos()), "a new counter does not start at 0")
		}
	}
	countingWriterAccounting(e, a)
	writeToReturnsWritten(e)
	e.R.Floor("LAYER", 8)
	e.R.Floor("GATE", 10)
	e.R.Floor("FORALL", 6)
	e.R.Floor("TABLE", 10)
}

// knownCallers: fn itself when the rule tables know it, otherwise the known
// functions that (transitively, through unknown helpers) call it; an unknown
// function nobody calls stands for itself.
func knownCallers(e *Env, fn *ssa.Function, depth int) []string {
	root := fn
	for root.Parent() != nil {
		root = root.Parent()
	}
	if prov.KnownFunction(root) || depth > 3 {
		return []string{load.FuncName(root)}
	}
	seen := map[string]bool{}
	var out []string
	if node := e.P.VTA().Nodes[root]; node != nil {
		for _, in := range node.In {
			if in.Caller == nil || in.Caller.Func == nil || !e.P.InModule(in.Caller.Func) {
				continue
			}
			for _, o := range knownCallers(e, in.Caller.Func, depth+1) {
				if !seen[o] {
					seen[o] = true
					out = append(out, o)
				}
			}
		}
	}
	if len(out) == 0 {
		return []string{load.FuncName(root)}
	}
	sort.Strings(out)
	return out
}

// tableAndBodies: writeSectionOffsets, writeSectionHeader and the body loop of
// WriteTo use the same slice value; every section is written.
func tableAndBodies(e *Env, wt *ssa.Function) {
	if wt == nil {
		return
	}
	var table, count, loopColl ssa.Value
	var body *ssa.Call
	for _, b := range wt.Blocks {
		for _, in := range b.Instrs {
			c, ok := in.(*ssa.Call)
			if !ok {
				continue
			}
			switch prov.CalleeName(&c.Call) {
			case "bundle.writeSectionOffsets":
				table = c.Call.Args[1]
			case "bundle.writeSectionHeader":
				if l, ok := c.Call.Args[1].(*ssa.Call); ok && prov.CalleeName(&l.Call) == "builtin:len" {
					count = l.Call.Args[0]
				}
			case "invoke:bundle.section.WriteTo":
				body = c
				// receiver = sections[rangeidx]
				if u, ok := c.Call.Value.(*ssa.UnOp); ok {
					if ia, ok := u.X.(*ssa.IndexAddr); ok {
						loopColl = ia.X
					}
				}
			}
		}
	}
	key := "bundle.(*Bundle).WriteTo:table-and-bodies"
	if table == nil || count == nil || body == nil || loopColl == nil {
		e.R.Undecided("AGREE", key, e.P.Pos(wt.Pos()), "cannot identify the section table, the section count and the body loop")
		return
	}
	if table == count && table == loopColl {
		e.R.OK("AGREE", key, e.P.InstrPos(body), "the length table, the declared section count and the body loop all use the same slice value (no append in between)")
	} else {
		e.R.Fail("AGREE", key, e.P.InstrPos(body), "the section-length table, the section count and the bodies written are not derived from the same list",
			"table  "+short(prov.Of(table)), "count  "+short(prov.Of(count)), "bodies "+short(prov.Of(loopColl)))
	}
	forAllIterations(e, "FORALL", wt, prov.Of(loopColl), noCfg,
		gate.CallOK("B.each-section", "invoke:bundle.section.WriteTo", "*[rangeidx]", "call:bundle.NewCountingWriter(param:w)"))
	e.callOrder("ORDER", "table-before-bodies", wt, gate.CallInstr("", "bundle.writeSectionOffsets", "*"), gate.CallInstr("", "invoke:bundle.section.WriteTo", "*"), "the length table precedes the section bodies")
	e.callOrder("ORDER", "magic-before-table", wt, gate.CallInstr("", "(*bundle.CountingWriter).Write", "*", "call:(bundle/version.Version).HeaderMagicBytes(*)"), gate.CallInstr("", "bundle.writeSectionOffsets", "*"), "the magic bytes precede the length table")
}

// footerLast: writeFooter(cw, int(cw.Written)) is reached only after the body
// loop has finished, and no destination write follows it.
func footerLast(e *Env, wt *ssa.Function) {
	if wt == nil {
		return
	}
	var footer, body *ssa.Call
	for _, b := range wt.Blocks {
		for _, in := range b.Instrs {
			if c, ok := in.(*ssa.Call); ok {
				switch prov.CalleeName(&c.Call) {
				case "bundle.writeFooter":
					footer = c
				case "invoke:bundle.section.WriteTo":
					body = c
				}
			}
		}
	}
	key := "bundle.(*Bundle).WriteTo:footer"
	if footer == nil || body == nil {
		e.R.Undecided("ORDER", key, e.P.Pos(wt.Pos()), "footer or body write not found")
		return
	}
	okArg := prov.Match("conv(call:bundle.NewCountingWriter(param:w).Written)", prov.Of(footer.Call.Args[1]))
	// the footer's block is outside the body loop and not reachable back to the body
	reachBack := false
	seen := map[*ssa.BasicBlock]bool{}
	stack := append([]*ssa.BasicBlock{}, footer.Block().Succs...)
	for len(stack) > 0 {
		x := stack[len(stack)-1]
		stack = stack[:len(stack)-1]
		if seen[x] {
			continue
		}
		seen[x] = true
		for _, in := range x.Instrs {
			if c, ok := in.(*ssa.Call); ok && c != footer {
				n := prov.CalleeName(&c.Call)
				if strings.HasPrefix(n, "bundle.write") || strings.HasPrefix(n, "invoke:bundle.section.") || strings.HasSuffix(n, "CountingWriter).Write") {
					reachBack = true
				}
			}
		}
		stack = append(stack, x.Succs...)
	}
	// every path to the footer passes the loop exit of the body loop
	hdr := body.Block()
	for hdr != nil {
		if _, ok := hdr.Instrs[len(hdr.Instrs)-1].(*ssa.If); ok && hdr.Dominates(body.Block()) && hdr != body.Block() {
			// nearest dominating branch whose true side leads to the body: the loop header
			if strings.HasPrefix(prov.Of(hdr.Instrs[len(hdr.Instrs)-1].(*ssa.If).Cond), "(rangeidx <") {
				break
			}
		}
		hdr = hdr.Idom()
	}
	afterLoop := hdr != nil && hdr.Dominates(footer.Block()) && !hdr.Succs[0].Dominates(footer.Block())
	if okArg && !reachBack && afterLoop {
		e.R.OK("ORDER", key, e.P.InstrPos(footer), "the footer is written after the body loop has finished, with the byte count accumulated so far, and nothing is written after it")
	} else {
		e.R.Fail("ORDER", key, e.P.InstrPos(footer), "the trailing length is not the last thing written, or is not computed from the bytes counted so far",
			"argument is cw.Written: "+boolStr(okArg), "a destination write can follow: "+boolStr(reachBack), "placed after the body loop: "+boolStr(afterLoop))
	}
}

func boolStr(b bool) string {
	if b {
		return "yes"
	}
	return "no"
}

// sectionStorage: each section type derives Len() and WriteTo from the same storage.
func sectionStorage(e *Env) {
	type spec struct{ typ, lenWant, writeCallee, writeArg string }
	for _, s := range []spec{
		{"indexSection", "len(param:is.bytes)", "invoke:io.Writer.Write", "param:is.bytes"},
		{"responsesSection", "call:(*bytes.Buffer).Len(param:rs.buf)", "(*bytes.Buffer).WriteTo", "param:rs.buf"},
	} {
		ln := e.fn("bundle.(*" + s.typ + ").Len")
		wr := e.fn("bundle.(*" + s.typ + ").WriteTo")
		e.requireResult("AGREE", ln, gate.Outcome{Kind: gate.AnyReturn}, 0, s.lenWant, "the length of the section's staged bytes")
		if wr != nil {
			found := false
			for _, b := range wr.Blocks {
				for _, in := range b.Instrs {
					if c, ok := in.(*ssa.Call); ok && prov.CalleeName(&c.Call) == s.writeCallee {
						for _, a := range append([]ssa.Value{c.Call.Value}, c.Call.Args...) {
							if a != nil && prov.Of(a) == s.writeArg {
								found = true
							}
						}
					}
				}
			}
			key := "bundle.(*" + s.typ + ").WriteTo:same-storage"
			if found {
				e.R.OK("AGREE", key, e.P.Pos(wr.Pos()), "WriteTo emits the same storage Len() measures")
			} else {
				e.R.Fail("AGREE", key, e.P.Pos(wr.Pos()), "WriteTo does not emit the storage that Len() measures")
			}
		}
	}
	// embedded-buffer sections must not override Len / WriteTo
	for _, t := range []string{"primarySection", "manifestSection", "signaturesSection"} {
		key := "bundle." + t + ":promoted-Len-WriteTo"
		pkg := e.P.SSAPkgs[load.ModulePath+"/go/bundle"]
		if pkg == nil {
			e.R.Undecided("AGREE", key, "-", "package bundle not found")
			continue
		}
		tn, ok := pkg.Members[t].(*ssa.Type)
		if !ok {
			e.R.Undecided("AGREE", key, "-", "type "+t+" not found")
			continue
		}
		ms := e.P.Prog.MethodSets.MethodSet(types.NewPointer(tn.Type()))
		okAll := true
		var names []string
		for _, m := range []string{"Len", "WriteTo"} {
			sel := ms.Lookup(pkg.Pkg, m)
			if sel == nil || len(sel.Index()) < 2 || sel.Obj().Pkg().Path() != "bytes" {
				okAll = false
			}
			if sel != nil {
				names = append(names, m+"="+sel.Obj().Pkg().Path())
			}
		}
		sort.Strings(names)
		if okAll {
			e.R.OK("AGREE", key, "-", "Len and WriteTo are both promoted from the embedded bytes.Buffer")
		} else {
			e.R.Fail("AGREE", key, "-", "Len/WriteTo are no longer both the embedded buffer's: the declared length and the bytes written can differ ("+strings.Join(names, ", ")+")")
		}
	}
}

var _ = token.ADD
