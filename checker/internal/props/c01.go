package props

import (
	"go/token"
	"strings"

	"golang.org/x/tools/go/ssa"

	"wpverif/internal/flow"
	"wpverif/internal/gate"
	"wpverif/internal/prov"
)

func init() { register("C01", checkC01) }

const (
	tChain0   = "call:certurl.ReadCertChain(call:bytes.NewBuffer(dyn:param:fetch(param:signature.CertUrl)#0))#0[const:0]"
	tCertSha  = "call:(*certurl.AugmentedCertificate).CertSha256(" + tChain0 + ")"
	tMsgCall  = "call:signedexchange.serializeSignedMessage(param:e," + tCertSha + ",param:signature.ValidityUrl,param:signature.Date,param:signature.Expires)"
	tVerifier = "call:signingalgorithm.VerifierForPublicKey(" + tChain0 + ".Cert.PublicKey)#0"
	tMice     = "call:(signedexchange/version.Version).MiceEncoding(param:e.Version)"
	tDigest   = "call:(http.Header).Get(param:e.ResponseHeaders,call:(mice.Encoding).DigestHeaderName(" + tMice + "))"
	tDecoder  = "call:(mice.Encoding).NewDecoder(" + tMice + ",call:bytes.NewBuffer(param:e.Payload)," + tDigest + ",const:16384)"
	tSigItem  = "call:signedexchange.extractSignatureFields(call:structuredheader.ParseParameterisedList(param:e.SignatureHeaderValue)#0[rangeidx])#0"
)

// timeGates: the three normalised comparisons of the validity window.
func timeGates(prefix, tVer, tDate, tExp string) []gate.Gate {
	return []gate.Gate{
		either(prefix+".cap", "not (expires - date > 604800 s)",
			gate.Cmp("", "call:(time.Time).Sub("+tExp+","+tDate+")", token.LEQ, "const:604800000000000")),
		either(prefix+".nbf", "not (t < date)",
			gate.CallBool("", "(time.Time).Before", false, tVer, tDate),
			gate.CallBool("", "(time.Time).After", false, tDate, tVer)),
		either(prefix+".exp", "not (t > expires)",
			gate.CallBool("", "(time.Time).After", false, tVer, tExp),
			gate.CallBool("", "(time.Time).Before", false, tExp, tVer)),
	}
}

// verifyGatesC01 are the gates of Appendix A required by C01 at
// (*Exchange).Verify; they are established inside verifySignature,
// verifyTimestamps, verifyPayload and the ECDSA verifier and reach the entry
// point through summaries.
func verifyGatesC01() []gate.Gate {
	gs := []gate.Gate{
		gate.CallOK("V.parse", "structuredheader.ParseParameterisedList", "param:e.SignatureHeaderValue"),
		gate.CallOK("V.fields", "signedexchange.extractSignatureFields", "call:structuredheader.ParseParameterisedList(param:e.SignatureHeaderValue)#0[rangeidx]"),
		gate.CallOK("V.sigcall", "signedexchange.verifySignature", "param:e", "param:verificationTime", "param:certFetcher", tSigItem),
		gate.CallOK("V.fetch", "dyn:param:fetch", "param:signature.CertUrl"),
		gate.CallOK("V.chain", "certurl.ReadCertChain", "call:bytes.NewBuffer(dyn:param:fetch(param:signature.CertUrl)#0)"),
		gate.CallOK("V.alg", "signingalgorithm.VerifierForPublicKey", tChain0+".Cert.PublicKey"),
		gate.CallOK("V.tcall", "signedexchange.verifyTimestamps", "param:signature", "param:verificationTime"),
		gate.CallOK("V.msg", "signedexchange.serializeSignedMessage", "param:e", tCertSha, "param:signature.ValidityUrl", "param:signature.Date", "param:signature.Expires"),
		bytesEqual("V.certsha", "bytes.Equal(exact(sig.CertSha256), exact(chain[0].CertSha256()))", "param:signature.CertSha256", tCertSha),
		gate.CallOK("V.sig.err", "invoke:signingalgorithm.Verifier.Verify", tVerifier, tMsgCall+"#0", "param:signature.Sig"),
		gate.CallBool("V.sig.ok", "invoke:signingalgorithm.Verifier.Verify", true, tVerifier, tMsgCall+"#0", "param:signature.Sig"),
		gate.CallOK("V.paycall", "signedexchange.verifyPayload", "param:e", "param:signature"),
		gate.Cmp("V.integrity", "param:signature.Integrity", token.EQL, "call:(mice.Encoding).IntegrityIdentifier("+tMice+")"),
		gate.Cmp("V.digest", tDigest, token.NEQ, `const:""`),
		gate.CallOK("V.mi.dec", "(mice.Encoding).NewDecoder", tMice, "call:bytes.NewBuffer(param:e.Payload)", tDigest, "const:16384"),
		either("V.mi.read", "ok(ReadAll(decoder))",
			gate.CallOK("", "io.ReadAll", tDecoder+"#0"), gate.CallOK("", "io.ReadAll", tDecoder+"#0")),
		// ECDSA verifier (c)
		gate.CallOK("E.asn1", "asn1.Unmarshal", "param:sig", "local:v"),
		either("E.rest", "len(rest) == 0",
			gate.Cmp("", "len(call:asn1.Unmarshal(param:sig,local:v)#0)", token.LEQ, "const:0"),
			gate.Cmp("", "len(call:asn1.Unmarshal(param:sig,local:v)#0)", token.EQL, "const:0")),
		gate.CallBool("E.verify", "ecdsa.Verify", true, "param:e.pubKey", "invoke:hash.Hash.Sum(call:(crypto.Hash).New(param:e.hash),const:nil)", "local:v.R", "local:v.S"),
	}
	gs = append(gs, timeGates("V.t", "param:verificationTime", "call:time.Unix(param:sig.Date,const:0)", "call:time.Unix(param:sig.Expires,const:0)")...)
	return gs
}

func checkC01(e *Env) {
	e.R.Explanation = "Decided (structural necessary conditions of C01): (a) gate completeness of (*Exchange).Verify per version 1b1/1b2/1b3 — on every CFG path to 'return payload, true' the Signature header was parsed, the seven typed parameters extracted, the chain fetched and parsed, the verifier built from chain[0]'s public key, the three time comparisons passed, cert-sha256 compared exactly with SHA-256(chain[0]), the signature verified (err==nil and ok) over serializeSignedMessage(e, certSha256, validity-url, date, expires), integrity id / digest header / MI decode (limit 16384) passed, and the payload returned is that ReadAll result; (b) signed-message coverage: on every path of serializeSignedMessage per version the returned buffer received cert-sha256, validity-url, date, expires, request URL, status/headers (and method/request headers in b1/b2); (c) the ECDSA verifier's DER and trailing-data gates and curve/hash table. " +
		"Not decided: cryptographic soundness, the structured-header parser (C16), bit-level non-malleability of the file format, url.Parse."
	e.R.RuleText = "E2 must-pass-through: a gate is discharged iff no CFG path from the entry to an exit with the success outcome avoids every edge/instruction establishing it (callee summaries computed recursively; branches on Exchange.Version folded per version); operands are matched by SSA provenance terms, 'exact' = no slice/index on the way"
	verify := e.fn("signedexchange.(*Exchange).Verify")
	success := gate.Outcome{Kind: gate.BoolTrue, Idx: 1}
	for _, v := range sxgVersions {
		cfg := sxgVersion(v)
		gs := verifyGatesC01()
		if v == "1b3" {
			gs = append(gs, gate.Cmp("V.ctype", `call:(http.Header).Get(param:e.ResponseHeaders,const:"Content-Type")`, token.NEQ, `const:""`))
		}
		e.requireGates("GATE", verify, success, cfg, gs...)
	}
	e.R.Floor("GATE", 60)

	// result provenance: the payload handed back is the authenticated ReadAll result
	e.requireResult("RESULT", verify, success, 0, "call:signedexchange.verifySignature(param:e,param:verificationTime,param:certFetcher,"+tSigItem+")#1", "the payload returned by verifySignature for this signature")
	vs := e.fn("signedexchange.verifySignature")
	e.requireResult("RESULT", vs, gate.Outcome{Kind: gate.ErrNil, Idx: 2}, 1, "call:signedexchange.verifyPayload(param:e,param:signature)#0", "the payload returned by verifyPayload")
	vp := e.fn("signedexchange.verifyPayload")
	e.requireResult("RESULT", vp, gate.Outcome{Kind: gate.ErrNil, Idx: 1}, 0, "call:i*.ReadAll("+tDecoder+"#0)#0", "the bytes read from the MI decoder over e.Payload")
	e.R.Floor("RESULT", 3)

	// extractSignatureFields: seven comma-ok assertions with the asserted types, stored into the named fields
	ex := e.fn("signedexchange.extractSignatureFields")
	for _, f := range []struct{ key, typ, field string }{
		{"sig", "[]byte", "Sig"}, {"integrity", "string", "Integrity"}, {"cert-url", "string", "CertUrl"},
		{"cert-sha256", "[]byte", "CertSha256"}, {"validity-url", "string", "ValidityUrl"},
		{"date", "int64", "Date"}, {"expires", "int64", "Expires"},
	} {
		term := "assert:" + f.typ + `(param:pi.Params[const:"` + f.key + `"])`
		e.requireGates("FIELDS", ex, gate.Outcome{Kind: gate.ErrNil, Idx: 1}, noCfg, gate.BoolVal("param."+f.key, "ok:"+term, true))
		e.requireStore("FIELDS", ex, "*."+f.field, term, "parameter '"+f.key+"' asserted as "+f.typ)
	}
	e.R.Floor("FIELDS", 14)

	signedMessageCoverage(e)
	curveHashTable(e)
	c15Obligations(e, "C01 inherits")
	// the header value that enters the signed message is the value itself: a
	// normalisation on the signing side that the parsed exchange does not show
	// lets unsigned bytes ride on a valid signature (seed C01-f)
	e.requireResult("RESULT", e.fn("signedexchange.normalizeHeaderValues"), gate.Outcome{Kind: gate.AnyReturn}, 0, `call:strings.Join(param:values,const:",")`, "the field values as they are, joined with ','")
}

// closureEntry: a MakeClosure whose body encodes valuePat through valueE and
// whose map entry reaches the slice passed to EncodeMap.
func closureEntry(key, calleePat string, argPats ...string) gate.Gate {
	bodyMatches := func(mc *ssa.MakeClosure) bool {
		fn, ok := mc.Fn.(*ssa.Function)
		if !ok {
			return false
		}
		for _, b := range fn.Blocks {
			for _, i2 := range b.Instrs {
				c, ok := i2.(ssa.CallInstruction)
				if !ok || !prov.Match(calleePat, prov.CalleeName(c.Common())) {
					continue
				}
				args := c.Common().Args
				okArgs := len(args) >= len(argPats)
				for k, p := range argPats {
					if !okArgs {
						break
					}
					if p != "" && !prov.Match(p, prov.Of(args[k])) {
						okArgs = false
					}
				}
				if okArgs {
					return true
				}
			}
		}
		return false
	}
	toEncodeMap := func(call ssa.CallInstruction, i int) bool {
		return prov.CalleeName(call.Common()) == "(*cbor.Encoder).EncodeMap" && i == 1
	}
	return gate.Gate{Key: key, Desc: "map entry encoding " + strings.Join(argPats, ",") + " reaches EncodeMap",
		Instr: func(in ssa.Instruction) bool {
			switch x := in.(type) {
			case *ssa.MakeClosure:
				if !bodyMatches(x) {
					return false
				}
				if flow.Reaches(x, toEncodeMap) {
					return true
				}
				// the value-encoding closure is handed to a helper the rule tables do
				// not know, which wraps it: helper(key, closure) returns
				// GenerateMapEntry(func(k, v) { ...; closure(v) }); the helper's
				// result must reach EncodeMap
				if x.Referrers() == nil {
					return false
				}
				for _, ref := range *x.Referrers() {
					c, ok := ref.(*ssa.Call)
					if !ok {
						continue
					}
					h := c.Call.StaticCallee()
					if h == nil || h.Blocks == nil || prov.KnownFunction(h) || len(c.Call.Args) != len(h.Params) || h.Pkg == nil || !strings.HasPrefix(h.Pkg.Pkg.Path(), prov.ModulePrefix) {
						continue
					}
					idx := -1
					for i, a := range c.Call.Args {
						if a == ssa.Value(x) {
							idx = i
						}
					}
					if idx < 0 || !helperWrapsClosure(h, idx) {
						continue
					}
					if flow.Reaches(c, toEncodeMap) {
						return true
					}
				}
				return false
			case *ssa.Call:
				// the entry is built by a helper the rule tables do not know:
				// helper(key, value) returns GenerateMapEntry(closure); the
				// closure is matched with the helper's parameters standing for
				// the arguments of this call, and the call's result must reach
				// EncodeMap
				fn := x.Call.StaticCallee()
				if fn == nil || fn.Blocks == nil || prov.KnownFunction(fn) || len(x.Call.Args) != len(fn.Params) || prov.SubstDepth() > 2 {
					return false
				}
				if fn.Pkg == nil || !strings.HasPrefix(fn.Pkg.Pkg.Path(), prov.ModulePrefix) {
					return false
				}
				prov.PushSubst(fn, &x.Call)
				found := false
				for _, b := range fn.Blocks {
					for _, i2 := range b.Instrs {
						if mc, ok := i2.(*ssa.MakeClosure); ok && bodyMatches(mc) {
							// the closure must be what the helper returns (through GenerateMapEntry)
							if flow.Reaches(mc, func(call ssa.CallInstruction, i int) bool {
								return prov.CalleeName(call.Common()) == "cbor.GenerateMapEntry" && i == 0
							}) {
								found = true
							}
						}
					}
				}
				prov.PopSubst()
				if !found {
					return false
				}
				// single return of a GenerateMapEntry result
				for _, b := range fn.Blocks {
					if r, ok := b.Instrs[len(b.Instrs)-1].(*ssa.Return); ok {
						if len(r.Results) != 1 || !strings.HasPrefix(prov.Of(r.Results[0]), "call:cbor.GenerateMapEntry(") {
							return false
						}
					}
				}
				return flow.Reaches(x, toEncodeMap)
			}
			return false
		}}
}

// helperWrapsClosure: every return of h is GenerateMapEntry(closure) and that
// closure calls h's parameter idx (a function value) on its value encoder.
func helperWrapsClosure(h *ssa.Function, idx int) bool {
	var wrap *ssa.MakeClosure
	for _, b := range h.Blocks {
		r, ok := b.Instrs[len(b.Instrs)-1].(*ssa.Return)
		if !ok {
			continue
		}
		if len(r.Results) != 1 {
			return false
		}
		gm, ok := r.Results[0].(*ssa.Call)
		if !ok || !strings.HasSuffix(prov.CalleeName(&gm.Call), "cbor.GenerateMapEntry") || len(gm.Call.Args) != 1 {
			return false
		}
		mc, ok := gm.Call.Args[0].(*ssa.MakeClosure)
		if !ok {
			return false
		}
		wrap = mc
	}
	if wrap == nil {
		return false
	}
	wf, ok := wrap.Fn.(*ssa.Function)
	if !ok || len(wf.Params) != 2 {
		return false
	}
	// which free variable of the wrapper is bound to parameter idx
	isParam := func(bnd ssa.Value) bool {
		if bnd == ssa.Value(h.Params[idx]) {
			return true
		}
		// a captured parameter lives in a cell that holds just that parameter
		al, ok := bnd.(*ssa.Alloc)
		if !ok || al.Referrers() == nil {
			return false
		}
		n := 0
		for _, r := range *al.Referrers() {
			if st, ok := r.(*ssa.Store); ok && st.Addr == ssa.Value(al) {
				n++
				if st.Val != ssa.Value(h.Params[idx]) {
					return false
				}
			}
		}
		return n == 1
	}
	for i, bnd := range wrap.Bindings {
		if i >= len(wf.FreeVars) || !isParam(bnd) {
			continue
		}
		fv := wf.FreeVars[i]
		for _, b := range wf.Blocks {
			for _, in := range b.Instrs {
				c, ok := in.(*ssa.Call)
				if !ok || len(c.Call.Args) != 1 || c.Call.Args[0] != ssa.Value(wf.Params[1]) {
					continue
				}
				callee := c.Call.Value
				if u, ok := callee.(*ssa.UnOp); ok && u.Op == token.MUL {
					callee = u.X
				}
				if callee == ssa.Value(fv) {
					return true
				}
			}
		}
	}
	return false
}

func bufWrite(key, buf, arg string) gate.Gate {
	return gate.CallInstr(key, "(*bytes.Buffer).Write", buf, arg)
}

func signedMessageCoverage(e *Env) {
	ssm := e.fn("signedexchange.serializeSignedMessage")
	out := gate.Outcome{Kind: gate.ErrNil, Idx: 1}
	be8 := func(x string) string { return "call:bigendian.EncodeBytesUint(" + x + ",const:8)#0" }
	for _, v := range []string{"1b2", "1b3"} {
		e.requireGates("COVER", ssm, out, sxgVersion(v),
			either("msg.cert-sha256", "cert-sha256 written to the message (or tested absent)",
				bufWrite("", "local:buf", "param:certSha256"), gate.Cmp("", "param:certSha256", token.EQL, "const:nil")),
			bufWrite("msg.validity-url.len", "local:buf", be8("conv(len(conv(param:validityUrl)))")),
			bufWrite("msg.validity-url", "local:buf", "conv(param:validityUrl)"),
			bufWrite("msg.date", "local:buf", be8("param:date")),
			bufWrite("msg.expires", "local:buf", be8("param:expires")),
			bufWrite("msg.url.len", "local:buf", be8("conv(len(conv(param:e.RequestURI)))")),
			bufWrite("msg.url", "local:buf", "conv(param:e.RequestURI)"),
			gate.CallOK("msg.headers.encode", "(*signedexchange.Exchange).encodeExchangeHeaders", "param:e", "call:cbor.NewEncoder({alloc:bytes.Buffer|local:*})"),
			bufWrite("msg.headers.len", "local:buf", be8("conv({call:(*bytes.Buffer).Len({alloc:bytes.Buffer|local:*})|len(call:(*bytes.Buffer).Bytes({alloc:bytes.Buffer|local:*}))})")),
			either("msg.headers", "the header CBOR is appended to the message",
				gate.CallInstr("", "(*bytes.Buffer).WriteTo", "{alloc:bytes.Buffer|local:*}", "local:buf"),
				bufWrite("", "local:buf", "call:(*bytes.Buffer).Bytes({alloc:bytes.Buffer|local:*})")),
			gate.CallInstr("msg.context", "(*bytes.Buffer).WriteString", "local:buf", "call:signedexchange.contextString(param:e.Version)"),
		)
	}
	e.requireGates("COVER", ssm, out, sxgVersion("1b1"),
		either("msg.cert-sha256", "cert-sha256 entry reaches EncodeMap (or tested absent)",
			closureEntry("", "(*cbor.Encoder).EncodeByteString", "param:valueE", "free:certSha256"), gate.Cmp("", "param:certSha256", token.EQL, "const:nil")),
		closureEntry("msg.validity-url", "(*cbor.Encoder).EncodeByteString", "param:valueE", "conv(free:validityUrl)"),
		closureEntry("msg.date", "(*cbor.Encoder).EncodeInt", "param:valueE", "free:date"),
		closureEntry("msg.expires", "(*cbor.Encoder).EncodeInt", "param:valueE", "free:expires"),
		closureEntry("msg.headers", "(*signedexchange.Exchange).encodeExchangeHeaders", "free:e", "param:valueE"),
		gate.CallOK("msg.map", "(*cbor.Encoder).EncodeMap", "call:cbor.NewEncoder(local:buf)", ""),
		gate.CallInstr("msg.context", "(*bytes.Buffer).WriteString", "local:buf", "call:signedexchange.contextString(param:e.Version)"),
	)
	e.requireResult("COVER", ssm, out, 0, "call:(*bytes.Buffer).Bytes(local:buf)", "the message buffer")

	// encodeExchangeHeaders per version
	eeh := e.fn("signedexchange.(*Exchange).encodeExchangeHeaders")
	o1 := gate.Outcome{Kind: gate.ErrNil, Idx: 0}
	for _, v := range sxgVersions {
		gs := []gate.Gate{gate.CallOK("hdr.response", "(*signedexchange.Exchange).encodeResponseMap", "param:e", "param:enc")}
		if v != "1b3" {
			gs = append(gs, gate.CallOK("hdr.request", "(*signedexchange.Exchange).encodeRequestMap", "param:e", "param:enc"))
		}
		e.requireGates("COVER", eeh, o1, sxgVersion(v), gs...)
	}
	erm := e.fn("signedexchange.(*Exchange).encodeRequestMap")
	for _, v := range []string{"1b1", "1b2"} {
		gs := []gate.Gate{
			closureEntry("req.method", "(*cbor.Encoder).EncodeByteString", "param:valueE", "conv(free:e.RequestMethod)"),
			gate.CallInstr("req.headers", "signedexchange.encodeHeaders", "*", "param:e.RequestHeaders"),
			gate.CallOK("req.map", "(*cbor.Encoder).EncodeMap", "param:enc", "call:signedexchange.encodeHeaders(*,param:e.RequestHeaders)"),
		}
		if v == "1b1" {
			gs = append(gs, closureEntry("req.url", "(*cbor.Encoder).EncodeByteString", "param:valueE", "conv(free:e.RequestURI)"))
		}
		e.requireGates("COVER", erm, o1, sxgVersion(v), gs...)
	}
	ersm := e.fn("signedexchange.(*Exchange).encodeResponseMap")
	e.requireGates("COVER", ersm, o1, noCfg,
		closureEntry("res.status", "(*cbor.Encoder).EncodeByteString", "param:valueE", "conv(call:strconv.Itoa(free:e.ResponseStatus))"),
		gate.CallInstr("res.headers", "signedexchange.encodeHeaders", "*", "param:e.ResponseHeaders"),
		gate.CallOK("res.map", "(*cbor.Encoder).EncodeMap", "param:enc", "call:signedexchange.encodeHeaders(*,param:e.ResponseHeaders)"),
	)
	headerEntriesComplete(e, "COVER")
	e.R.Floor("COVER", 40)
}

// headerEntriesComplete (shared by C01 and C02): every header of the map
// becomes an entry (lower-cased name, all values of that name joined) of the
// slice encodeHeaders returns.
func headerEntriesComplete(e *Env, rule string) {
	forAllIterations(e, rule, e.fn("signedexchange.encodeHeaders"), "param:headers", noCfg,
		gate.Gate{Key: "hdr.each", Desc: "an entry encoding name and value is appended for every header",
			Instr: func(in ssa.Instruction) bool {
				c, ok := in.(*ssa.Call)
				if !ok || prov.CalleeName(&c.Call) != "builtin:append" {
					return false
				}
				// the appended element is GenerateMapEntry(closure using name and value)
				return strings.Contains(prov.Of(c.Call.Args[1]), "") && appendCarriesHeaderEntry(c)
			}})
}

// appendCarriesHeaderEntry: the variadic slice appended holds a
// GenerateMapEntry(closure) whose closure encodes ToLower(name) as key and the
// joined values as value.
func appendCarriesHeaderEntry(app *ssa.Call) bool {
	check := func(mc *ssa.MakeClosure) bool {
		cf := mc.Fn.(*ssa.Function)
		hasKey, hasVal := false, false
		for _, cb := range cf.Blocks {
			for _, ci := range cb.Instrs {
				c, ok := ci.(ssa.CallInstruction)
				if !ok {
					continue
				}
				if prov.CalleeName(c.Common()) != "(*cbor.Encoder).EncodeByteString" {
					continue
				}
				a := c.Common().Args
				if prov.Match("param:keyE", prov.Of(a[0])) && prov.Match("conv(call:strings.ToLower({free:name|rangekey(param:headers)}))", prov.Of(a[1])) {
					hasKey = true
				}
				if prov.Match("param:valueE", prov.Of(a[0])) && prov.Match("conv(call:*.normalizeHeaderValues({free:value|rangeval(param:headers)}))", prov.Of(a[1])) {
					hasVal = true
				}
			}
		}
		return hasKey && hasVal
	}
	fn := app.Parent()
	for _, b := range fn.Blocks {
		for _, in := range b.Instrs {
			mc, ok := in.(*ssa.MakeClosure)
			if !ok {
				continue
			}
			if check(mc) && flow.Reaches(mc, func(call ssa.CallInstruction, i int) bool { return call == ssa.CallInstruction(app) && i == 1 }) {
				return true
			}
		}
	}
	// the entry is built by a helper the rule tables do not know: the element
	// appended is that helper's result, GenerateMapEntry(closure), examined
	// with the helper's parameters standing for the arguments of the call
	for _, el := range appendedElems(app) {
		c, ok := el.(*ssa.Call)
		if !ok {
			continue
		}
		h := c.Call.StaticCallee()
		if h == nil || h.Blocks == nil || prov.KnownFunction(h) || h.Pkg == nil || !strings.HasPrefix(h.Pkg.Pkg.Path(), prov.ModulePrefix) || len(c.Call.Args) != len(h.Params) {
			continue
		}
		var rets []*ssa.Return
		for _, b := range h.Blocks {
			if r, ok := b.Instrs[len(b.Instrs)-1].(*ssa.Return); ok {
				rets = append(rets, r)
			}
		}
		if len(rets) != 1 || len(rets[0].Results) != 1 {
			continue
		}
		gm, ok := rets[0].Results[0].(*ssa.Call)
		if !ok || !strings.HasSuffix(prov.CalleeName(&gm.Call), "cbor.GenerateMapEntry") || len(gm.Call.Args) != 1 {
			continue
		}
		mc, ok := gm.Call.Args[0].(*ssa.MakeClosure)
		if !ok {
			continue
		}
		prov.PushSubst(h, &c.Call)
		good := check(mc)
		prov.PopSubst()
		if good {
			return true
		}
	}
	return false
}

// curveHashTable: signer and verifier pair P-256 with SHA-256 and P-384 with SHA-384.
// curveHashMapTable: the pairing written as a package-level map from curve
// name to hash: fn (or a helper the rule tables do not know) looks the curve's
// name up in a map that only the package initialiser fills, refuses a missing
// key (comma-ok tested) and stores the value found in the .hash field.
func curveHashMapTable(e *Env, fn *ssa.Function) map[string]string {
	pairs := map[string]string{}
	fs := []*ssa.Function{fn}
	for _, c := range unknownHelperCalls(e, fn) {
		fs = append(fs, c.Call.StaticCallee())
	}
	var g *ssa.Global
	for _, f := range fs {
		for _, b := range f.Blocks {
			for _, in := range b.Instrs {
				lk, ok := in.(*ssa.Lookup)
				if !ok || !lk.CommaOk {
					continue
				}
				ld, ok := lk.X.(*ssa.UnOp)
				if !ok {
					continue
				}
				if gg, ok := ld.X.(*ssa.Global); ok && strings.Contains(gg.Type().String(), "crypto.Hash") {
					g = gg
				}
			}
		}
	}
	if g == nil || g.Pkg == nil {
		return pairs
	}
	// the hash stored in the algorithm object is the value looked up
	flows := false
	for _, b := range fn.Blocks {
		for _, in := range b.Instrs {
			if st, ok := in.(*ssa.Store); ok && strings.HasSuffix(prov.Of(st.Addr), ".hash") && strings.Contains(prov.Of(st.Val), prov.Of(g)+"[") {
				flows = true
			}
		}
	}
	if !flows {
		return pairs
	}
	// written only by the initialiser, with constant values
	for _, f := range e.P.Funcs {
		for _, b := range f.Blocks {
			for _, in := range b.Instrs {
				switch x := in.(type) {
				case *ssa.Store:
					if x.Addr == ssa.Value(g) && f.Name() != "init" {
						return map[string]string{}
					}
				case *ssa.MapUpdate:
					if strings.HasPrefix(prov.Of(x.Map), prov.Of(g)) && f.Name() != "init" {
						return map[string]string{}
					}
				}
			}
		}
	}
	init := g.Pkg.Func("init")
	if init == nil {
		return pairs
	}
	for _, b := range init.Blocks {
		for _, in := range b.Instrs {
			st, ok := in.(*ssa.Store)
			if !ok || st.Addr != ssa.Value(g) {
				continue
			}
			mm, ok := st.Val.(*ssa.MakeMap)
			if !ok || mm.Referrers() == nil {
				continue
			}
			for _, r := range *mm.Referrers() {
				mu, ok := r.(*ssa.MapUpdate)
				if !ok {
					continue
				}
				k := prov.Of(mu.Key)
				switch {
				case strings.Contains(k, "elliptic.P256()"):
					pairs["P-256"] = prov.Of(mu.Value)
				case strings.Contains(k, "elliptic.P384()"):
					pairs["P-384"] = prov.Of(mu.Value)
				default:
					pairs["other:"+k] = prov.Of(mu.Value)
				}
			}
		}
	}
	return pairs
}

func curveHashTable(e *Env) {
	for _, name := range []string{"internal/signingalgorithm.SigningAlgorithmForPrivateKey", "internal/signingalgorithm.VerifierForPublicKey"} {
		fn := e.fn(name)
		if fn == nil {
			continue
		}
		pairs := map[string]string{}
		for _, b := range fn.Blocks {
			ifi, ok := b.Instrs[len(b.Instrs)-1].(*ssa.If)
			if !ok {
				continue
			}
			for _, f := range gate.EdgeFacts(ifi.Cond, true) {
				if f.Kind != gate.FCmp || f.Op != token.EQL {
					continue
				}
				y := prov.Of(f.Y)
				var curve string
				switch {
				case strings.Contains(y, "elliptic.P256()"):
					curve = "P-256"
				case strings.Contains(y, "elliptic.P384()"):
					curve = "P-384"
				default:
					continue
				}
				// the hash constant stored in the struct built on the true edge
				tb := b.Succs[0]
				for _, in := range tb.Instrs {
					if st, ok := in.(*ssa.Store); ok && strings.HasSuffix(prov.Of(st.Addr), ".hash") {
						pairs[curve] = prov.Of(st.Val)
					}
				}
			}
		}
		if len(pairs) == 0 {
			pairs = curveHashMapTable(e, fn)
		}
		want := map[string]string{"P-256": "const:5", "P-384": "const:6"} // crypto.SHA256 = 5, crypto.SHA384 = 6
		for _, c := range []string{"P-256", "P-384"} {
			key := name + ":" + c
			if pairs[c] == want[c] {
				e.R.OK("TABLE", key, e.P.Pos(fn.Pos()), "curve "+c+" is paired with hash "+want[c]+" (crypto.Hash constant)")
			} else {
				e.R.Fail("TABLE", key, e.P.Pos(fn.Pos()), "curve "+c+" is paired with "+pairs[c]+", specification wants "+want[c])
			}
		}
	}
}
