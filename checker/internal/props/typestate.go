package props

func micetypestate(e *Env, why string) {}
