package props

import (
	"go/token"
	"strings"

	"golang.org/x/tools/go/ssa"

	"wpverif/internal/gate"
	"wpverif/internal/load"
	"wpverif/internal/prov"
)

const (
	tBuf      = "param:d.recordBuf"
	tReadN    = "call:io.ReadFull(param:d.r,param:d.recordBuf)#0"
	tShortRec = "slice(param:d.recordBuf,," + tReadN + ")"
)

// the 8-byte record size at the head of the stream: binary.Read into a
// uint64, or io.ReadFull into an 8-byte array decoded with BigEndian.Uint64
const (
	tRecSize     = "{local:recordSize|call:(binary.bigEndian).Uint64(read8(param:r))}"
	tReadSizeErr = "{call:binary.Read(param:r,global:binary.BigEndian,local:recordSize)|call:io.ReadFull(param:r,read8(param:r))#1}"
)

func readSizeOK() gate.Gate {
	return either("N.read-size", "the 8-byte record size was read without error",
		gate.CallOK("", "binary.Read", "param:r", "global:binary.BigEndian", "local:recordSize"),
		gate.CallOK("", "io.ReadFull", "param:r", "read8(param:r)"))
}

func storeTo(field string, valPat string) func(ssa.Instruction) bool {
	return func(in ssa.Instruction) bool {
		st, ok := in.(*ssa.Store)
		if !ok || prov.Of(st.Addr) != "param:d."+field {
			return false
		}
		return valPat == "" || prov.Match(valPat, prov.Of(st.Val))
	}
}

// micetypestate: E9 — the validated-buffer typestate of the MI decoder.
func micetypestate(e *Env, why string) {
	rn := e.fn("signedexchange/mice.(*decoder).readNextRecord")
	rd := e.fn("signedexchange/mice.(*decoder).Read")
	nd := e.fn("signedexchange/mice.(Encoding).NewDecoder")
	vr := e.fn("signedexchange/mice.validateRecord")
	if rn == nil || rd == nil || nd == nil || vr == nil {
		return
	}
	lastOK := gate.CallBool("V.last", "mice.validateRecord", true, tShortRec, "param:d.nextProof", "const:true")
	fullOK := gate.CallBool("V.full", "mice.validateRecord", true, tBuf, "param:d.nextProof", "const:false")
	emptyOK := gate.CallBool("V.empty", "mice.validateRecord", true, "const:nil", "param:d.nextProof", "const:true")

	// 1. who-writes
	whoWritesDecoder(e)

	// 2. stores to out
	allowedOut := 0
	for _, fn := range []*ssa.Function{rn, rd, nd} {
		for _, b := range fn.Blocks {
			for _, in := range b.Instrs {
				st, ok := in.(*ssa.Store)
				if !ok || !strings.HasSuffix(prov.Of(st.Addr), ".out") || !strings.Contains(prov.Of(st.Addr), "d") {
					continue
				}
				if fa, ok := st.Addr.(*ssa.FieldAddr); !ok || !strings.HasSuffix(fieldOf(fa), "decoder.out") {
					continue
				}
				allowedOut++
				v := prov.Of(st.Val)
				key := load.FuncName(fn) + ":out<-" + short(v)
				switch {
				case v == "const:nil":
					e.R.OK("TYPESTATE", key, e.P.InstrPos(in), "out is emptied")
				case v == tShortRec:
					// handled by gatesBefore below
				case v == "slice(param:d.recordBuf,,param:d.recordSize)":
				case strings.HasPrefix(v, "slice(param:d.out,"):
					e.R.OK("TYPESTATE", key, e.P.InstrPos(in), "out is advanced within itself (already validated bytes)")
				default:
					e.R.Fail("TYPESTATE", key, e.P.InstrPos(in), "out is set to a value that is not a validated sub-slice of the record buffer: "+v)
				}
			}
		}
	}
	e.gatesBefore("TYPESTATE", rn, noCfg, "out=buf[:n]", storeTo("out", tShortRec), lastOK)
	e.gatesBefore("TYPESTATE", rn, noCfg, "out=buf[:recordSize]", storeTo("out", "slice(param:d.recordBuf,,param:d.recordSize)"), fullOK)
	// 3. nextProof
	e.gatesBefore("TYPESTATE", rn, noCfg, "nextProof=nil", storeTo("nextProof", "const:nil"), either("V.last-or-empty", "validateRecord(..., last=true) true", lastOK, emptyOK))
	nCopy := e.gatesBefore("TYPESTATE", rn, noCfg, "copy(nextProof,buf[recordSize:])", func(in ssa.Instruction) bool {
		c, ok := in.(*ssa.Call)
		return ok && prov.CalleeName(&c.Call) == "builtin:copy" && prov.Of(c.Call.Args[0]) == "param:d.nextProof"
	}, fullOK)
	if nCopy != 1 {
		e.R.Fail("TYPESTATE", "readNextRecord:next-proof-chained", e.P.Pos(rn.Pos()), "the proof of the next record is not taken from the validated record exactly once")
	} else {
		for _, b := range rn.Blocks {
			for _, in := range b.Instrs {
				if c, ok := in.(*ssa.Call); ok && prov.CalleeName(&c.Call) == "builtin:copy" && prov.Of(c.Call.Args[0]) == "param:d.nextProof" {
					if prov.Of(c.Call.Args[1]) == "slice(param:d.recordBuf,param:d.recordSize,)" {
						e.R.OK("TYPESTATE", "readNextRecord:next-proof-chained", e.P.InstrPos(in), "the next proof is the tail of the record just validated (authenticated with it)")
					} else {
						e.R.Fail("TYPESTATE", "readNextRecord:next-proof-chained", e.P.InstrPos(in), "the next proof is copied from "+prov.Of(c.Call.Args[1])+", not from the tail of the validated record")
					}
				}
			}
		}
	}
	// every store of nextProof in the three functions is one of the accepted forms
	for _, fn := range []*ssa.Function{rn, rd} {
		fn := fn
		forEachInstrWithHelpers(e, fn, func(in ssa.Instruction) {
			if st, ok := in.(*ssa.Store); ok && prov.Of(st.Addr) == "param:d.nextProof" && prov.Of(st.Val) != "const:nil" {
				e.R.Fail("TYPESTATE", load.FuncName(fn)+":nextProof<-"+short(prov.Of(st.Val)), e.P.InstrPos(in), "nextProof is replaced by an unauthenticated value")
			}
		})
	}
	// 4. flags: short read => last, full read => not last; hashing 0 / 1 as the encoder
	e.gatesBefore("TYPESTATE", rn, noCfg, "validate(last)", func(in ssa.Instruction) bool {
		c, ok := in.(*ssa.Call)
		return ok && prov.CalleeName(&c.Call) == "mice.validateRecord" && prov.Of(c.Call.Args[0]) == tShortRec
	}, errIs("R.short", "call:io.ReadFull(param:d.r,param:d.recordBuf)#1", "global:io.ErrUnexpectedEOF"),
		gate.Cmp("R.not-in-hash", "conv("+tReadN+")", token.LEQ, "param:d.recordSize"))
	e.gatesBefore("TYPESTATE", rn, noCfg, "validate(full)", func(in ssa.Instruction) bool {
		c, ok := in.(*ssa.Call)
		return ok && prov.CalleeName(&c.Call) == "mice.validateRecord" && prov.Of(c.Call.Args[0]) == tBuf
	}, gate.CallOK("R.full", "io.ReadFull", "param:d.r", "param:d.recordBuf"))
	e.gatesBefore("TYPESTATE", rn, noCfg, "validate(empty)", func(in ssa.Instruction) bool {
		c, ok := in.(*ssa.Call)
		return ok && prov.CalleeName(&c.Call) == "mice.validateRecord" && prov.Of(c.Call.Args[0]) == "const:nil"
	}, errIs("R.eof", "call:io.ReadFull(param:d.r,param:d.recordBuf)#1", "global:io.EOF"),
		gate.Cmp("R.draft02", "param:d.encoding", token.EQL, `const:"mi-sha256-draft2"`))
	// every validateRecord call in readNextRecord is one of the three forms, flag constant as required
	forEachInstrWithHelpers(e, rn, func(in ssa.Instruction) {
		if c, ok := in.(*ssa.Call); ok && prov.CalleeName(&c.Call) == "mice.validateRecord" {
			a0, a1, a2 := prov.Of(c.Call.Args[0]), prov.Of(c.Call.Args[1]), prov.Of(c.Call.Args[2])
			key := "readNextRecord:validate(" + short(a0) + ")"
			okForm := a1 == "param:d.nextProof" && ((a0 == tShortRec && a2 == "const:true") || (a0 == tBuf && a2 == "const:false") || (a0 == "const:nil" && a2 == "const:true"))
			if okForm {
				e.R.OK("TYPESTATE", key, e.P.InstrPos(in), "record, chained proof and last-record flag agree (flag "+a2+")")
			} else {
				e.R.Fail("TYPESTATE", key, e.P.InstrPos(in), "validateRecord is called with record/proof/flag ("+short(a0)+", "+a1+", "+a2+") that do not agree with the read outcome")
			}
		}
	})
	flagBytes(e, vr)
	// success exits of readNextRecord: nil only after a validation; io.EOF only after the empty last record
	e.requireGates("TYPESTATE", rn, gate.Outcome{Kind: gate.ErrNil, Idx: 0}, noCfg,
		either("V.any", "a validateRecord pass-edge", lastOK, fullOK))
	// 5. Read
	e.requireResult("TYPESTATE", rd, gate.Outcome{Kind: gate.ErrNil, Idx: 1}, 0, "copy(param:dst,param:d.out)", "the number of bytes copied from out")
	e.gatesBefore("TYPESTATE", rd, noCfg, "return EOF", func(in ssa.Instruction) bool {
		r, ok := in.(*ssa.Return)
		return ok && len(r.Results) == 2 && prov.Of(r.Results[1]) == "global:io.EOF"
	}, gate.Cmp("E.out-empty", "len(param:d.out)", token.EQL, "const:0"), gate.Cmp("E.no-next", "param:d.nextProof", token.EQL, "const:nil"))
	// 8. refill only when out is empty
	e.gatesBefore("TYPESTATE", rd, noCfg, "refill", func(in ssa.Instruction) bool {
		c, ok := in.(*ssa.Call)
		return ok && prov.CalleeName(&c.Call) == "(*mice.decoder).readNextRecord"
	}, gate.Cmp("F.out-empty", "len(param:d.out)", token.EQL, "const:0"))
	// the copy to the caller comes from out only
	for _, b := range rd.Blocks {
		for _, in := range b.Instrs {
			if c, ok := in.(*ssa.Call); ok && prov.CalleeName(&c.Call) == "builtin:copy" {
				if prov.Of(c.Call.Args[0]) == "param:dst" && prov.Of(c.Call.Args[1]) == "param:d.out" {
					e.R.OK("TYPESTATE", "Read:copy-from-out", e.P.InstrPos(in), "bytes handed to the caller come from out")
				} else {
					e.R.Fail("TYPESTATE", "Read:copy-from-out", e.P.InstrPos(in), "Read copies "+prov.Of(c.Call.Args[1])+" to the caller, not the validated out buffer")
				}
			}
		}
	}
	// 6. NewDecoder
	ndo := gate.Outcome{Kind: gate.ErrNil, Idx: 1}
	tProof := "call:(mice.Encoding).parseDigestHeader(param:enc,param:digestHeaderValue)#0"
	e.requireGates("TYPESTATE", nd, ndo, noCfg,
		gate.CallOK("N.digest", "(mice.Encoding).parseDigestHeader", "param:enc", "param:digestHeaderValue"))
	e.gatesBefore("TYPESTATE", nd, noCfg, "alloc-record-buffer", func(in ssa.Instruction) bool {
		_, ok := in.(*ssa.MakeSlice)
		return ok
	}, gate.Cmp("N.nonzero", tRecSize, token.NEQ, "const:0"), gate.Cmp("N.max", tRecSize, token.LEQ, "param:maxRecordSize"),
		readSizeOK())
	// the empty-stream shortcut: a decoder without reader/proof is returned only for non-draft02 after validateRecord(nil, proof, true)
	for _, b := range nd.Blocks {
		r, ok := b.Instrs[len(b.Instrs)-1].(*ssa.Return)
		if !ok || len(r.Results) != 2 || prov.Of(r.Results[1]) != "const:nil" {
			continue
		}
		al, ok := r.Results[0].(*ssa.MakeInterface)
		if !ok {
			continue
		}
		hasProof := false
		if a, ok := al.X.(*ssa.Alloc); ok {
			for _, ref := range *a.Referrers() {
				if fa, ok := ref.(*ssa.FieldAddr); ok && strings.HasSuffix(fieldOf(fa), "decoder.nextProof") {
					hasProof = true
				}
			}
		}
		if hasProof {
			// the regular decoder: its nextProof is the parsed top-level proof
			e.requireStore("TYPESTATE", nd, "alloc:mice.decoder.nextProof", tProof, "the top-level proof parsed from the digest header")
			e.requireStore("TYPESTATE", nd, "alloc:mice.decoder.r", "param:r", "the caller's reader")
			continue
		}
		ctx := gate.New(e.P, e.P.VTA())
		ctx.OnlyReturn = r
		for _, g := range []gate.Gate{
			gate.CallBool("N.empty-valid", "mice.validateRecord", true, "const:nil", tProof, "const:true"),
			errIs("N.empty-eof", tReadSizeErr, "global:io.EOF"),
			gate.Cmp("N.empty-not-draft02", "param:enc", token.NEQ, `const:"mi-sha256-draft2"`),
		} {
			ok2, w := ctx.Established(nd, gate.Outcome{Kind: gate.AnyReturn}, g)
			key := "signedexchange/mice.(Encoding).NewDecoder:empty-stream:" + g.Key
			if ok2 {
				e.R.OK("TYPESTATE", key, e.P.InstrPos(r), "the empty decoder is returned only after "+g.Desc)
			} else {
				e.R.Fail("TYPESTATE", key, e.P.InstrPos(r), "the empty-stream shortcut can be taken without "+g.Desc, w...)
			}
		}
	}
	// 7. validateRecord and the digest length
	e.requireResult("TYPESTATE", vr, gate.Outcome{Kind: gate.AnyReturn}, 0, bytesEqualTerm("invoke:hash.Hash.Sum(call:sha256.New(),const:nil)", "param:proof"), "bytes.Equal(SHA-256(record || flag), proof)")
	e.requireGates("TYPESTATE", vr, gate.Outcome{Kind: gate.AnyReturn}, noCfg,
		gate.CallInstr("H.record", "invoke:hash.Hash.Write", "call:sha256.New()", "param:record"))
	pd := e.fn("signedexchange/mice.(Encoding).parseDigestHeader")
	e.requireGates("TYPESTATE", pd, gate.Outcome{Kind: gate.ErrNil, Idx: 1}, noCfg,
		gate.Cmp("P.len32", "len(invoke:*DecodeString(*)#0)", token.EQL, "const:32").WithEdge(func(f gate.Fact) bool {
			return f.Kind == gate.FCmp && f.Op == token.EQL && strings.HasPrefix(prov.Of(f.X), "len(call:(*base64.Encoding).DecodeString(") && prov.Of(f.Y) == "const:32"
		}),
		gate.Cmp("P.algorithm", "*", token.EQL, "call:(mice.Encoding).ContentEncoding(param:enc)"))
	e.R.Floor("TYPESTATE", 30)
	e.R.Extra["typestate_note"] = why
}

func fieldOf(fa *ssa.FieldAddr) string {
	t := fa.X.Type()
	s := t.String()
	i := strings.LastIndex(s, "/")
	if i >= 0 {
		s = s[i+1:]
	}
	s = strings.TrimPrefix(s, "*")
	names := structFieldNames(fa)
	if fa.Field < len(names) {
		return s + "." + names[fa.Field]
	}
	return s
}

func structFieldNames(fa *ssa.FieldAddr) []string {
	var out []string
	t := fa.X.Type().Underlying()
	if p, ok := t.(interface {
		Elem() interface{ Underlying() interface{} }
	}); ok {
		_ = p
	}
	// use prov: the rendered address ends with ".<field>"
	addr := prov.Of(fa)
	if i := strings.LastIndex(addr, "."); i >= 0 {
		for k := 0; k <= fa.Field; k++ {
			out = append(out, addr[i+1:])
		}
	}
	return out
}

// readsBytesOnly: the byte slice v is never written through: it is only
// hashed/compared (validateRecord), measured, copied from, re-sliced, or kept
// (the slice header stored into a field).
func readsBytesOnly(v ssa.Value, depth int) bool {
	if depth > 4 || v.Referrers() == nil {
		return depth <= 4
	}
	for _, r := range *v.Referrers() {
		switch x := r.(type) {
		case *ssa.DebugRef:
		case *ssa.Store:
			if x.Addr == v {
				return false
			}
		case *ssa.Slice:
			if !readsBytesOnly(x, depth+1) {
				return false
			}
		case *ssa.Phi:
			if !readsBytesOnly(x, depth+1) {
				return false
			}
		case *ssa.IndexAddr:
			for _, rr := range *x.Referrers() {
				if st, ok := rr.(*ssa.Store); ok && st.Addr == ssa.Value(x) {
					return false
				}
			}
		case *ssa.Call:
			name := prov.CalleeName(&x.Call)
			switch {
			case name == "mice.validateRecord", name == "builtin:len", name == "bytes.Equal":
			case name == "builtin:copy" && len(x.Call.Args) == 2 && x.Call.Args[1] == v && x.Call.Args[0] != v:
			default:
				return false
			}
		case *ssa.BinOp, *ssa.If:
		default:
			return false
		}
	}
	return true
}

// whoWritesDecoder: only NewDecoder, Read and readNextRecord store to the
// decoder's fields; the record buffer is written only by io.ReadFull in
// readNextRecord and the proof bytes only by the copy there.
func whoWritesDecoder(e *Env) {
	allowed := map[string]bool{
		"signedexchange/mice.(Encoding).NewDecoder":     true,
		"signedexchange/mice.(*decoder).Read":           true,
		"signedexchange/mice.(*decoder).readNextRecord": true,
	}
	bad := []string{}
	n := 0
	for _, fn := range e.P.Funcs {
		for _, b := range fn.Blocks {
			for _, in := range b.Instrs {
				switch x := in.(type) {
				case *ssa.Store:
					if fa, ok := x.Addr.(*ssa.FieldAddr); ok && strings.Contains(fa.X.Type().String(), "mice.decoder") {
						n++
						okOwner := true
						for _, owner := range knownCallers(e, fn, 0) {
							if !allowed[owner] {
								okOwner = false
							}
						}
						if !okOwner {
							bad = append(bad, load.FuncName(fn)+" stores to "+prov.Of(x.Addr))
						}
					}
				case *ssa.Call:
					// writers into the buffers: any call receiving d.recordBuf / d.nextProof / d.out (or a slice of them) as destination
					name := prov.CalleeName(&x.Call)
					for i, a := range x.Call.Args {
						t := prov.Of(a)
						if !strings.Contains(t, "d.recordBuf") && !strings.Contains(t, "d.nextProof") {
							continue
						}
						if !strings.HasPrefix(load.FuncName(fn), "signedexchange/mice.") {
							continue
						}
						n++
						switch {
						case name == "io.ReadFull" && i == 1 && t == "param:d.recordBuf" && load.FuncName(fn) == "signedexchange/mice.(*decoder).readNextRecord":
						case name == "builtin:copy" && i == 0 && t == "param:d.nextProof" && load.FuncName(fn) == "signedexchange/mice.(*decoder).readNextRecord":
						case name == "builtin:copy" && i == 1: // source operand
						case name == "mice.validateRecord": // read-only: hashes record and compares proof
						case name == "builtin:len":
						default:
							// a helper the rule tables do not know, called from the state
							// machine, that only reads the bytes it is given
							if h := x.Call.StaticCallee(); h != nil && h.Blocks != nil && !prov.KnownFunction(h) && e.P.InModule(h) && len(x.Call.Args) == len(h.Params) && allowed[load.FuncName(fn)] && readsBytesOnly(h.Params[i], 0) {
								break
							}
							bad = append(bad, load.FuncName(fn)+" passes "+t+" to "+name)
						}
					}
				}
			}
		}
	}
	if len(bad) == 0 && n >= 8 {
		e.R.OK("TYPESTATE", "mice.decoder:who-writes", "-", "the decoder's fields are stored only by NewDecoder/Read/readNextRecord; the record buffer is filled only by io.ReadFull and the chained proof only by the copy in readNextRecord")
	} else {
		e.R.Fail("TYPESTATE", "mice.decoder:who-writes", "-", "the validated-buffer state of the MI decoder is written outside the three state-machine functions", bad...)
	}
	// validateRecord must not write through its slices
	if vr, ok := e.P.FuncOK("signedexchange/mice.validateRecord"); ok {
		for _, b := range vr.Blocks {
			for _, in := range b.Instrs {
				if st, ok := in.(*ssa.Store); ok {
					if t := prov.Of(st.Addr); strings.HasPrefix(t, "param:record") || strings.HasPrefix(t, "param:proof") {
						e.R.Fail("TYPESTATE", "mice.validateRecord:read-only", e.P.InstrPos(in), "validateRecord writes into its input")
					}
				}
			}
		}
	}
}

// flagBytes: validateRecord hashes 0x00 after a last record and 0x01 otherwise;
// the encoder does the same (last record 0, others 1).
func flagBytes(e *Env, vr *ssa.Function) {
	for _, v := range []struct{ val, want string }{{"true", "0"}, {"false", "1"}} {
		ctx := gate.New(e.P, e.P.VTA(), gate.Assumption{ProvPat: "param:isLastRecord", Value: v.val})
		got := flagStores(ctx, vr)
		key := "mice.validateRecord:flag(last=" + v.val + ")"
		if len(got) == 1 && got[0] == v.want {
			e.R.OK("TABLE", key, e.P.Pos(vr.Pos()), "domain-separation byte "+v.want)
		} else {
			e.R.Fail("TABLE", key, e.P.Pos(vr.Pos()), "wrong domain-separation byte for last="+v.val+": "+strings.Join(got, ","))
		}
	}
	enc := e.fn("signedexchange/mice.(Encoding).Encode")
	if enc == nil {
		return
	}
	// the two hashing arms of the proof loop, identified by their shape
	host, done := proofHost(e, enc)
	defer done()
	lw, mw := encodeArms(host)
	for _, v := range []struct {
		ws   []*ssa.Call
		want string
		name string
	}{{lw, "0", "last"}, {mw, "1", "not-last"}} {
		key := "mice.Encode:flag(" + v.name + ")"
		got := "?"
		if v.ws != nil {
			got = flagOf(v.ws[len(v.ws)-1])
		}
		if got == v.want {
			e.R.OK("TABLE", key, e.P.Pos(enc.Pos()), "the encoder hashes "+v.want+" for this record class, as validateRecord does")
		} else {
			e.R.Fail("TABLE", key, e.P.Pos(enc.Pos()), "encoder and decoder disagree on the domain-separation byte: encoder hashes "+got+" for "+v.name+" records")
		}
	}
}

// flagStores: constants stored into one-byte arrays on blocks reachable under
// the assumptions of ctx.
func flagStores(ctx *gate.Ctx, fn *ssa.Function) []string {
	return flagStoresFrom(ctx, fn, nil)
}

// flagStoresLoop restricts flagStores to the hashing loop of Encode: blocks
// that contain a call to hash.Hash.Write.
func flagStoresLoop(ctx *gate.Ctx, fn *ssa.Function) []string {
	return flagStoresFrom(ctx, fn, func(b *ssa.BasicBlock) bool {
		hashes, special := false, false
		for _, in := range b.Instrs {
			if c, ok := in.(*ssa.Call); ok {
				switch prov.CalleeName(&c.Call) {
				case "invoke:hash.Hash.Write":
					hashes = true
				case "(mice.Encoding).FormatDigestHeader":
					special = true // the draft-03 empty-payload case: SHA-256("\0"), an (empty) last record
				}
			}
		}
		return hashes && !special
	})
}

func flagStoresFrom(ctx *gate.Ctx, fn *ssa.Function, keep func(*ssa.BasicBlock) bool) []string {
	set := map[string]bool{}
	for _, b := range ctx.ReachableBlocks(fn) {
		if keep != nil && !keep(b) {
			continue
		}
		for _, in := range b.Instrs {
			st, ok := in.(*ssa.Store)
			if !ok {
				continue
			}
			if prov.Of(st.Addr) != "alloc:[1]byte[const:0]" {
				continue
			}
			if k, ok := st.Val.(*ssa.Const); ok {
				set[strings.TrimPrefix(prov.Of(k), "const:")] = true
			} else if v, ok := ctx.EvalValue(fn, st.Val); ok {
				// a flag computed before the write (flag := 1; if last { flag = 0 })
				set[v] = true
			} else {
				set["?"] = true
			}
		}
	}
	return sortedKeys(set)
}
