package props

import (
	"go/token"
	"strings"

	"golang.org/x/tools/go/ssa"

	"wpverif/internal/gate"
	"wpverif/internal/load"
)

func init() { register("C12", checkC12) }

func checkC12(e *Env) {
	e.R.Explanation = "Decided (structural necessary conditions of C12): (a) the additional-information partition of decodeTypedUint, evaluated for each of the 32 values: 0..23 direct, 24/25/26/27 -> 1/2/4/8 follow bytes read with io.ReadFull (error gate), 28..31 have no successful exit; the value is the direct value or the big-endian accumulation; agreement with the encoder's thresholds and addinfo.go; (b) the declared string length is range-checked before it becomes io.CopyN's count (E6 U1/U4); (c) gates: major-type equality in decodeOfType, CopyN error, utf8.Valid in DecodeTextString, the first byte read. " +
		"Not decided: that decoded values equal RFC 8949's for every input; the read position of the underlying reader beyond two structural facts: NewDecoder keeps the reader it was given (no read-ahead wrapper) and strings are read with exact counts."
	e.R.RuleText = "E7 table extraction by folding the CFG for each value of the discriminator (finite domain, exhaustive); E2 gates; E6 on decoder.go"
	// COPYLEN: no tolerant copy of input bytes (shared rule, copylen.go)
	copiesAreExact(e, 0, "internal/cbor.")
	dec := decoderHeadTable(e)
	lowest := encoderHeadTable(e)
	class, length, limit := addInfoTables(e)
	headTablesAgree(e, lowest, dec, class, length, limit)

	dot := e.fn("internal/cbor.(*Decoder).decodeOfType")
	e.requireGates("GATE", dot, gate.Outcome{Kind: gate.ErrNil, Idx: 1}, noCfg,
		gate.CallOK("T.head", "(*cbor.Decoder).decodeTypedUint", "param:d"),
		gate.Cmp("T.type", "call:(*cbor.Decoder).decodeTypedUint(param:d)#0", token.EQL, "param:expected"))
	e.requireResult("RESULT", dot, gate.Outcome{Kind: gate.ErrNil, Idx: 1}, 0, "call:(*cbor.Decoder).decodeTypedUint(param:d)#1", "the decoded argument")
	bo := gate.Outcome{Kind: gate.ErrNil, Idx: 1}
	stringsAreExact(e)
	dts := e.fn("internal/cbor.(*Decoder).DecodeTextString")
	e.requireGates("GATE", dts, bo, noCfg,
		gate.CallOK("S.bytes", "(*cbor.Decoder).decodeBytesOfType", "param:d", "const:96"),
		either("S.utf8", "the bytes are valid UTF-8", gate.CallBool("", "utf8.Valid", true, "call:(*cbor.Decoder).decodeBytesOfType(param:d,const:96)#0"), gate.CallBool("", "utf8.ValidString", true, "conv(call:(*cbor.Decoder).decodeBytesOfType(param:d,const:96)#0)")))
	for _, t := range []struct{ fn, typ string }{
		{"internal/cbor.(*Decoder).DecodeUint", "const:0"}, {"internal/cbor.(*Decoder).DecodeArrayHeader", "const:128"}, {"internal/cbor.(*Decoder).DecodeMapHeader", "const:160"},
	} {
		e.requireResult("RESULT", e.fn(t.fn), bo, 0, "call:(*cbor.Decoder).decodeOfType(param:d,"+t.typ+")#0", "decodeOfType with the major type of the method")
	}
	e.requireResult("RESULT", e.fn("internal/cbor.(*Decoder).DecodeByteString"), bo, 0, "call:(*cbor.Decoder).decodeBytesOfType(param:d,const:64)#0", "decodeBytesOfType(TypeBytes)")
	// the decoder reads from the very reader it was given: a read-ahead wrapper
	// would pull bytes that belong to whatever follows the item (seed C12-f)
	if nd := e.fn("internal/cbor.NewDecoder"); nd != nil {
		e.requireResult("RESULT", nd, gate.Outcome{Kind: gate.AnyReturn}, 0, "alloc:cbor.Decoder", "a fresh Decoder")
		e.requireStore("RESULT", nd, "alloc:cbor.Decoder.r", "param:r", "the reader passed in, unwrapped")
	}
	rb := e.fn("internal/cbor.(*Decoder).ReadByte")
	e.requireGates("GATE", rb, bo, noCfg, gate.CallOK("R.read", "io.ReadFull", "param:d.r", "{slice(alloc:[1]byte,*)|local:*|slice(local:*,*)}"))

	scope := parserScope(e, parserEntries)
	runUntrusted(e, scope, func(f *ssa.Function) bool {
		return strings.HasPrefix(load.FuncName(f), "internal/cbor.(*Decoder)")
	}, nil)
	iterationsIndependent(e, "ITER", e.fns("internal/cbor.(*Decoder).decodeOfType", "internal/cbor.(*Decoder).DecodeByteString", "internal/cbor.(*Decoder).DecodeTextString")...)
	e.R.Floor("TABLE", 80)
	e.R.Floor("GATE", 10)
	e.R.Floor("U1", 1)
	e.R.Floor("U4", 1)
}

// stringsAreExact (shared by C12 and C05): a byte/text string is returned
// only after exactly its declared number of bytes was copied (io.CopyN with
// the error honoured), never a shorter prefix.
func stringsAreExact(e *Env) {
	const tN = "call:(*cbor.Decoder).decodeOfType(param:d,param:expected)#0"
	dbt := e.fn("internal/cbor.(*Decoder).decodeBytesOfType")
	bo := gate.Outcome{Kind: gate.ErrNil, Idx: 1}
	e.requireGates("GATE", dbt, bo, noCfg,
		gate.CallOK("B.head", "(*cbor.Decoder).decodeOfType", "param:d", "param:expected"),
		// exactly n bytes: io.CopyN ok, io.ReadFull into make(n) ok, or a
		// length-limited ReadFrom whose count equals n
		either("B.copy", "exactly the declared number of bytes was read",
			gate.CallOK("", "io.CopyN", "{alloc:bytes.Buffer|local:*}", "param:d.r", "conv("+tN+")"),
			gate.CallOK("", "io.ReadFull", "param:d.r", "make([]byte,{"+tN+"|conv("+tN+")})"),
			gate.Cmp("", "call:(*bytes.Buffer).ReadFrom({alloc:bytes.Buffer|local:*},call:io.LimitReader(param:d.r,conv("+tN+")))#0", token.EQL, "conv("+tN+")")))
	e.requireResult("RESULT", dbt, bo, 0, "{call:(*bytes.Buffer).Bytes({alloc:bytes.Buffer|local:*})|make([]byte,{"+tN+"|conv("+tN+")})}", "exactly the bytes copied")
}
