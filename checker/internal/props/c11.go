package props

import (
	"go/token"
	"strings"
	"wpverif/internal/prov"

	"golang.org/x/tools/go/ssa"

	"wpverif/internal/gate"
	"wpverif/internal/load"
)

func init() { register("C11", checkC11) }

const tEntries = "make([]*cbor.MapEntryEncoder,len(param:mes))"

func checkC11(e *Env) {
	e.R.Explanation = "Decided (structural necessary conditions of C11): (a) the head ladder of encodeTypedUint, evaluated at every threshold of the code and of RFC 8949 (both sides of 24, 2^8, 2^16, 2^32, plus 0 and 2^64-1): shortest form with strict '<', first byte = type|ai, follow bytes big-endian, 1+nfollow bytes written; agreement with the decoder's and addinfo.go's tables; (b) EncodeMap: header count is len(mes); the emitted slice is a copy of mes of that length, sorted by sort.Slice whose comparator is bytes.Compare(KeyBytes(i), KeyBytes(j)) < 0 on the encoded keys; in every iteration the adjacent-duplicate test (first entry, or not bytes.Equal(previous key, key)) precedes emission and fails with ErrDuplicatedKey; key buffer then value buffer are copied with their errors honoured; (c) EncodeTextString is gated by utf8.Valid; (d) EncodeInt encodes negatives under major type 1 with uint64(-n)-1 and non-negatives under type 0; the typed wrappers pass their own major type; encodeBytes writes the head for len(bs) and then bs; (e) every destination write of the package propagates its error (E3). " +
		"Not decided: decoding by an independent decoder, the arithmetic identity uint64(-n)-1 == -1-n for MinInt64."
	e.R.RuleText = "E7 table extraction by folding the CFG at interval representatives of the discriminator; E2 gates with operand provenance; for-all loop rule; E3"
	// GROWVIEW: growable views over one base are disjoint (shared rule, growalias.go)
	growableViewsDisjoint(e, 0, "internal/cbor.")
	// ERRUSE: no error of a data-fallible module call is lost on the way (shared rule, erruse.go)
	moduleErrorsConsumed(e, erruseEntries, 6, "internal/cbor.")
	lowest := encoderHeadTable(e)
	dec := decoderHeadTableQuiet(e)
	class, length, limit := addInfoTablesQuiet(e)
	headTablesAgree(e, lowest, dec, class, length, limit)

	encodeMapObligations(e)
	o := gate.Outcome{Kind: gate.ErrNil, Idx: 0}

	ets := e.fn("internal/cbor.(*Encoder).EncodeTextString")
	e.requireGates("GATE", ets, o, noCfg,
		either("T.utf8", "the text is valid UTF-8", gate.CallBool("", "utf8.Valid", true, "conv(param:s)"), gate.CallBool("", "utf8.ValidString", true, "param:s")),
		gate.CallOK("T.bytes", "(*cbor.Encoder).encodeBytes", "param:e", "const:96", "conv(param:s)"))
	ei := e.fn("internal/cbor.(*Encoder).EncodeInt")
	// the negated value is -1-n, written uint64(-n)-1 or uint64(^n) (two's complement)
	e.requireGates("GATE", ei, o, noCfg,
		either("I.sign", "non-negative under type 0, negative as -1-n under type 1",
			gate.CallOK("", "(*cbor.Encoder).encodeTypedUint", "param:e", "const:0", "conv(param:n)"),
			gate.CallOK("", "(*cbor.Encoder).EncodeUint", "param:e", "conv(param:n)"),
			gate.CallOK("", "(*cbor.Encoder).encodeTypedUint", "param:e", "const:32", "{(conv(-param:n) - const:1)|conv(^param:n)}")))
	isCallTo := func(in ssa.Instruction, callee string, args ...string) bool {
		c, ok := in.(*ssa.Call)
		if !ok || prov.CalleeName(&c.Call) != callee {
			return false
		}
		for i, a := range args {
			if i >= len(c.Call.Args) || !prov.Match(a, prov.Of(c.Call.Args[i])) {
				return false
			}
		}
		return true
	}
	e.gatesBefore("GATE", ei, noCfg, "emit-non-negative", func(in ssa.Instruction) bool {
		return isCallTo(in, "(*cbor.Encoder).encodeTypedUint", "param:e", "const:0") || isCallTo(in, "(*cbor.Encoder).EncodeUint", "param:e")
	}, gate.Cmp("I.nonneg", "param:n", token.GEQ, "const:0"))
	e.gatesBefore("GATE", ei, noCfg, "emit-negative", func(in ssa.Instruction) bool {
		return isCallTo(in, "(*cbor.Encoder).encodeTypedUint", "param:e", "const:32")
	}, gate.Cmp("I.neg", "param:n", token.LSS, "const:0"))
	for _, t := range []struct{ fn, call, typ, arg string }{
		{"internal/cbor.(*Encoder).EncodeUint", "(*cbor.Encoder).encodeTypedUint", "const:0", "param:n"},
		{"internal/cbor.(*Encoder).EncodeArrayHeader", "(*cbor.Encoder).encodeTypedUint", "const:128", "conv(param:n)"},
		{"internal/cbor.(*Encoder).encodeMapHeader", "(*cbor.Encoder).encodeTypedUint", "const:160", "conv(param:n)"},
		{"internal/cbor.(*Encoder).EncodeByteString", "(*cbor.Encoder).encodeBytes", "const:64", "param:bs"},
	} {
		e.requireGates("GATE", e.fn(t.fn), o, noCfg, gate.CallOK("W.type", t.call, "param:e", t.typ, t.arg))
	}
	eb := e.fn("internal/cbor.(*Encoder).encodeBytes")
	hd := gate.CallOK("B.head", "(*cbor.Encoder).encodeTypedUint", "param:e", "param:t", "conv(len(param:bs))")
	bd := gate.CallOK("B.body", "invoke:io.Writer.Write", "param:e.w", "param:bs")
	e.requireGates("GATE", eb, o, noCfg, hd, bd)
	e.callOrder("ORDER", "head-before-body", eb, gate.CallInstr("", "(*cbor.Encoder).encodeTypedUint", "param:e", "param:t", "*"), gate.CallInstr("", "invoke:io.Writer.Write", "param:e.w", "param:bs"), "the head precedes the content")
	ebool := e.fn("internal/cbor.(*Encoder).EncodeBool")
	e.requireStore("RESULT", ebool, "alloc:[1]byte[const:0]", "(phi(const:20|const:21) | const:224)", "major type 7 with simple value 20/21")
	for _, v := range []struct{ val, want string }{{"true", "const:21"}, {"false", "const:20"}} {
		ctx := gate.New(e.P, e.P.VTA(), gate.Assumption{ProvPat: "param:b", Value: v.val})
		got := ctx.PhiUnder(ebool, "ai")
		if len(got) == 1 && got[0] == v.want {
			e.R.OK("TABLE", "EncodeBool:"+v.val, e.P.Pos(ebool.Pos()), "simple value "+v.want)
		} else {
			e.R.Fail("TABLE", "EncodeBool:"+v.val, e.P.Pos(ebool.Pos()), "wrong simple value for "+v.val+": "+strings.Join(got, ","))
		}
	}

	// (e) E3 over the package
	a, scope := destAnalysis(e, serializerEntries)
	in := map[*ssa.Function]bool{}
	for f := range scope {
		if strings.HasPrefix(load.FuncName(f), "internal/cbor.") {
			in[f] = true
		}
	}
	for _, st := range a.Sites(in) {
		if st.OK {
			e.R.OK("ERRPROP", st.Key, st.Pos, st.How)
		} else {
			e.R.Fail("ERRPROP", st.Key, st.Pos, "destination write whose error is not propagated: "+st.How)
		}
	}
	e.R.Floor("TABLE", 12)
	e.R.Floor("GATE", 14)
	e.R.Floor("FORALL", 3)
	e.R.Floor("ORDER", 3)
	e.R.Floor("ERRPROP", 14)
}

// dupReturnsError: the edge on which two adjacent keys are equal leads to a
// return of ErrDuplicatedKey.
func dupReturnsError(e *Env, em *ssa.Function, equal gate.Gate) {
	if em == nil {
		return
	}
	for _, b := range em.Blocks {
		ifi, ok := b.Instrs[len(b.Instrs)-1].(*ssa.If)
		if !ok {
			continue
		}
		for side, succ := range b.Succs {
			for _, f := range gate.EdgeFacts(ifi.Cond, side == 0) {
				if equal.Edge == nil || !equal.Edge(f) {
					continue
				}
				if r, ok := succ.Instrs[len(succ.Instrs)-1].(*ssa.Return); ok && provOf(r.Results[0]) == "global:cbor.ErrDuplicatedKey" {
					e.R.OK("GATE", load.FuncName(em)+":dup-is-error", e.P.InstrPos(r), "equal adjacent keys return ErrDuplicatedKey")
					return
				}
				e.R.Fail("GATE", load.FuncName(em)+":dup-is-error", e.P.InstrPos(ifi), "equal adjacent keys do not lead to 'return ErrDuplicatedKey'")
				return
			}
		}
	}
	e.R.Fail("GATE", load.FuncName(em)+":dup-is-error", e.P.Pos(em.Pos()), "no adjacent-duplicate test found")
}

// encodeMapObligations: EncodeMap emits a sorted, duplicate-free copy of its
// entries (shared by C11 and C04).
func encodeMapObligations(e *Env) {
	em := e.fn("internal/cbor.(*Encoder).EncodeMap")
	o := gate.Outcome{Kind: gate.ErrNil, Idx: 0}
	e.requireGates("GATE", em, o, noCfg,
		gate.CallOK("M.header", "(*cbor.Encoder).encodeMapHeader", "param:e", "len(param:mes)"),
		gate.CallInstr("M.copy", "builtin:copy", tEntries, "param:mes"),
		gate.CallInstr("M.sort", "sort.Slice || sort.SliceStable", tEntries, "closure:(*cbor.Encoder).EncodeMap$1"),
	)
	e.callOrder("ORDER", "copy-before-sort", em, gate.CallInstr("", "builtin:copy", tEntries, "param:mes"), gate.CallInstr("", "sort.Slice || sort.SliceStable", tEntries, "*"), "the entries are copied before they are sorted")
	cmp := e.fn("internal/cbor.(*Encoder).EncodeMap$1")
	e.requireResult("RESULT", cmp, gate.Outcome{Kind: gate.AnyReturn}, 0,
		"(call:bytes.Compare(call:(*cbor.MapEntryEncoder).KeyBytes({free:*|make([]*cbor.MapEntryEncoder,len(param:mes))}[param:i]),call:(*cbor.MapEntryEncoder).KeyBytes({free:*|make([]*cbor.MapEntryEncoder,len(param:mes))}[param:j])) < const:0)",
		"bytewise order of the encoded keys (strictly less)")
	e.requireResult("RESULT", e.fn("internal/cbor.(*MapEntryEncoder).KeyBytes"), gate.Outcome{Kind: gate.AnyReturn}, 0,
		"call:(*bytes.Buffer).Bytes(param:e.keyBuf)", "the encoded key buffer")
	tKey := "call:(*cbor.MapEntryEncoder).KeyBytes(" + tEntries + "[rangeidx])"
	tLast := "phi(" + tKey + "|const:nil)"
	forAllIterations(e, "FORALL", em, tEntries, noCfg,
		either("M.nodup", "first entry, or key differs from the previous key",
			gate.Cmp("", tLast, token.EQL, "const:nil"),
			bytesDiffer("", "", tLast, tKey)))
	forAllIterations(e, "FORALL", em, tEntries, noCfg, gate.CallOK("M.key", "io.Copy", "param:e.w", tEntries+"[rangeidx].keyBuf"))
	forAllIterations(e, "FORALL", em, tEntries, noCfg, gate.CallOK("M.value", "io.Copy", "param:e.w", tEntries+"[rangeidx].valueBuf"))
	e.callOrder("ORDER", "key-before-value", em, gate.CallInstr("", "io.Copy", "param:e.w", "*.keyBuf"), gate.CallInstr("", "io.Copy", "param:e.w", "*.valueBuf"), "each key is emitted before its value")
	e.dominatedByGates("GATE", em, noCfg, "io.Copy", []string{"param:e.w", "*.keyBuf"},
		either("M.nodup-before-emit", "first entry, or key differs from the previous key",
			gate.Cmp("", tLast, token.EQL, "const:nil"),
			bytesDiffer("", "", tLast, tKey)))
	// the duplicate edge returns ErrDuplicatedKey
	dupReturnsError(e, em, bytesEqual("", "", tLast, tKey))

}
