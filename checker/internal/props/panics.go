package props

import (
	"fmt"
	"go/constant"
	"go/token"
	"go/types"
	"regexp"
	"sort"
	"strings"

	"golang.org/x/tools/go/ssa"

	"wpverif/internal/gate"
	"wpverif/internal/load"
	"wpverif/internal/prov"
)

// panicExemptions: one symbol + one written reason each (DESIGN E8 (c)).
var panicExemptions = map[string]string{
	"bundle.loadResponse": "panic(err) after strconv.Atoi of a string that matched ^\\d\\d\\d$ (three ASCII digits always parse); the dominating gate reStatus.MatchString is re-checked",
	"signedexchange/structuredheader.(*parser).parseByteSequence": "panic(\"cannot happen\") after strings.IndexByte located the '*' that getString(len) then leaves at the head of the input; the dominating IndexByte >= 0 gate is re-checked",
}

// enumConsts returns the declared constants of a named string type.
func enumConsts(t *types.Named) []string {
	var out []string
	scope := t.Obj().Pkg().Scope()
	for _, n := range scope.Names() {
		if c, ok := scope.Lookup(n).(*types.Const); ok && types.Identical(c.Type(), t) && c.Val().Kind() == constant.String {
			out = append(out, fmt.Sprintf("%q", constant.StringVal(c.Val())))
		}
	}
	sort.Strings(out)
	return out
}

func namedOf(t types.Type) *types.Named {
	n, _ := t.(*types.Named)
	if n == nil || n.Obj().Pkg() == nil || !strings.HasPrefix(n.Obj().Pkg().Path(), load.ModulePath) {
		return nil
	}
	if b, ok := n.Underlying().(*types.Basic); !ok || b.Kind() != types.String {
		return nil
	}
	return n
}

// exhaustiveDefault: the panic block is dominated by v != c for every declared
// constant c of v's enumeration type.
func exhaustiveDefault(b *ssa.BasicBlock) (*types.Named, bool, []string) {
	seen := map[string]bool{}
	var enum *types.Named
	for d := b; d != nil; d = d.Idom() {
		p := d.Idom()
		if p == nil {
			break
		}
		ifi, ok := p.Instrs[len(p.Instrs)-1].(*ssa.If)
		if !ok {
			continue
		}
		for i, s := range p.Succs {
			if s != d || len(s.Preds) != 1 {
				continue
			}
			for _, f := range gate.EdgeFacts(ifi.Cond, i == 0) {
				if f.Kind != gate.FCmp || f.Op != token.NEQ {
					continue
				}
				k, ok := f.Y.(*ssa.Const)
				if !ok {
					continue
				}
				n := namedOf(k.Type())
				if n == nil {
					continue
				}
				if enum == nil {
					enum = n
				}
				if enum == n {
					seen[strings.TrimPrefix(prov.Of(k), "const:")] = true
				}
			}
		}
	}
	if enum == nil {
		return nil, false, nil
	}
	var missing []string
	for _, c := range enumConsts(enum) {
		if !seen[c] {
			missing = append(missing, c)
		}
	}
	return enum, len(missing) == 0, missing
}

// enumClosed: every library function returning the enumeration type returns a
// declared constant, a parameter/receiver of that type, or — together with a
// failing error/false — anything.
func enumClosed(e *Env, enum *types.Named) (bool, string) {
	declared := map[string]bool{}
	for _, c := range enumConsts(enum) {
		declared[c] = true
	}
	for _, fn := range e.P.Funcs {
		if !e.P.IsLibrary(fn) {
			continue
		}
		res := fn.Signature.Results()
		for i := 0; i < res.Len(); i++ {
			if !types.Identical(res.At(i).Type(), enum) {
				continue
			}
			for _, b := range fn.Blocks {
				r, ok := b.Instrs[len(b.Instrs)-1].(*ssa.Return)
				if !ok {
					continue
				}
				v := r.Results[i]
				if k, ok := v.(*ssa.Const); ok {
					if declared[strings.TrimPrefix(prov.Of(k), "const:")] {
						continue
					}
					// an undeclared value is fine only on a failing return
					last := r.Results[len(r.Results)-1]
					if lk, ok := last.(*ssa.Const); ok {
						if lk.Value == nil && isErr(last.Type()) {
							return false, load.FuncName(fn) + " returns the undeclared value " + prov.Of(k) + " with a nil error"
						}
						if lk.Value != nil && lk.Value.Kind() == constant.Bool && constant.BoolVal(lk.Value) {
							return false, load.FuncName(fn) + " returns the undeclared value " + prov.Of(k) + " with ok=true"
						}
					}
					if len(r.Results) == 1 {
						return false, load.FuncName(fn) + " returns the undeclared value " + prov.Of(k)
					}
					continue
				}
				if _, ok := v.(*ssa.Parameter); ok {
					continue
				}
				return false, load.FuncName(fn) + " returns a computed " + enum.Obj().Name() + " (" + short(prov.Of(v)) + ")"
			}
		}
		// conversions string -> enum of non-constants outside comparisons
		for _, b := range fn.Blocks {
			for _, in := range b.Instrs {
				cv, ok := in.(*ssa.Convert)
				if !ok || !types.Identical(cv.Type(), enum) {
					continue
				}
				if _, isC := cv.X.(*ssa.Const); isC {
					continue
				}
				onlyCompared := true
				for _, ref := range *cv.Referrers() {
					if bo, ok := ref.(*ssa.BinOp); ok && (bo.Op == token.EQL || bo.Op == token.NEQ) {
						continue
					}
					if _, ok := ref.(*ssa.DebugRef); ok {
						continue
					}
					onlyCompared = false
				}
				if !onlyCompared {
					return false, load.FuncName(fn) + " converts an arbitrary string to " + enum.Obj().Name()
				}
			}
		}
	}
	return true, ""
}

func isErr(t types.Type) bool { return types.Identical(t, types.Universe.Lookup("error").Type()) }

// panicReachability: E8 over the parser scope.
func panicReachability(e *Env, scope map[*ssa.Function]bool) {
	closedCache := map[*types.Named]string{}
	n := 0
	for _, fn := range sortedFuncs(scope) {
		k := 0
		for _, b := range fn.Blocks {
			pn, ok := b.Instrs[len(b.Instrs)-1].(*ssa.Panic)
			if !ok {
				continue
			}
			n++
			k++
			name := load.FuncName(fn)
			key := fmt.Sprintf("%s:panic#%d", name, k)
			pos := e.P.InstrPos(pn)
			// (a) exhaustive-switch default over a closed enumeration
			if enum, full, missing := exhaustiveDefault(b); enum != nil && (full || len(versionsReaching(e, fn, b)) == 0) {
				if !full {
					e.R.Fail("PANIC", key, pos, "panic in the default arm of a switch over "+enum.Obj().Name()+" that has no arm for "+strings.Join(missing, ", ")+": reachable for a declared value")
					continue
				}
				why, done := closedCache[enum]
				if !done {
					ok, w := enumClosed(e, enum)
					if ok {
						w = ""
					} else if w == "" {
						w = "not closed"
					}
					closedCache[enum] = w
					why = w
				}
				if why == "" {
					e.R.OK("PANIC", key, pos, "default arm of a switch with an arm for every declared "+enum.Obj().Name()+" constant; every producer of the type returns declared constants")
				} else {
					e.R.Fail("PANIC", key, pos, "default-arm panic over "+enum.Obj().Name()+" is reachable: "+why)
				}
				continue
			}
			// (b) guarded by a version test, with every caller unreachable for the triggering versions
			if vals := versionsReaching(e, fn, b); len(vals) > 0 {
				bad := ""
				for _, v := range vals {
					if w := callersReachableUnder(e, fn, v, scope); w != "" {
						bad = w
					}
				}
				if bad == "" {
					e.R.OK("PANIC", key, pos, "reachable only for versions "+strings.Join(vals, ",")+", for which every call site in parser scope is unreachable in the specialised CFG")
				} else {
					e.R.Fail("PANIC", key, pos, "version-guarded panic can be reached: "+bad)
				}
				continue
			}
			// (c) documented exemptions, each with a re-checked justification
			if why, ok := panicExemptions[name]; ok && exemptionHolds(e, fn, b) {
				e.R.OK("PANIC", key, pos, "exemption: "+why)
				continue
			}
			// the same justification wherever the code lives: panic on the error
			// of Atoi(s) behind a match of s against an all-digits pattern
			if atoiAfterDigitsMatch(e, b) {
				e.R.OK("PANIC", key, pos, "exemption: "+panicExemptions["bundle.loadResponse"])
				continue
			}
			e.R.Fail("PANIC", key, pos, "explicit panic reachable from a parser entry point and not discharged (not an exhaustive-switch default, not caller-guarded, not a documented cannot-happen site)",
				"in "+name, "panic value: "+short(prov.Of(pn.X)))
		}
	}
	e.R.Counts["panic_sites_in_scope"] = n
	e.R.Floor("PANIC", 8)
}

// versionsReaching: the signed-exchange versions under which the panic block
// is reachable from the function entry, if the panic is version-dependent.
func versionsReaching(e *Env, fn *ssa.Function, pb *ssa.BasicBlock) []string {
	var reach []string
	all := true
	for _, v := range sxgVersions {
		ctx := gate.New(e.P, e.P.VTA(), sxgVersion(v).assume...)
		_, w := ctx.EstablishedFrom(fn, fn.Blocks[0], gate.Outcome{Kind: gate.NoExit}, gate.Never, map[*ssa.BasicBlock]bool{pb: true})
		r := false
		for _, l := range w {
			if strings.HasPrefix(l, "reaches block") {
				r = true
			}
		}
		if r {
			reach = append(reach, v)
		} else {
			all = false
		}
	}
	if all {
		return nil // not version dependent
	}
	return reach
}

// callersReachableUnder: "" if, under version v, no call site of fn in scope
// is reachable from its caller's entry.
func callersReachableUnder(e *Env, fn *ssa.Function, v string, scope map[*ssa.Function]bool) string {
	for _, caller := range sortedFuncs(scope) {
		stop := map[*ssa.BasicBlock]bool{}
		for _, b := range caller.Blocks {
			for _, in := range b.Instrs {
				if ci, ok := in.(ssa.CallInstruction); ok {
					for _, cal := range e.P.ModuleCallees(e.P.VTA(), ci) {
						if cal == fn {
							stop[b] = true
						}
					}
				}
			}
		}
		if len(stop) == 0 {
			continue
		}
		ctx := gate.New(e.P, e.P.VTA(), sxgVersion(v).assume...)
		_, w := ctx.EstablishedFrom(caller, caller.Blocks[0], gate.Outcome{Kind: gate.NoExit}, gate.Never, stop)
		for _, l := range w {
			if strings.HasPrefix(l, "reaches block") {
				return "under version " + v + " the call in " + load.FuncName(caller) + " is reachable"
			}
		}
		if stop[caller.Blocks[0]] {
			return "under version " + v + " the call in " + load.FuncName(caller) + " is in its entry block"
		}
	}
	return ""
}

// atoiAfterDigitsMatch: the panic block is dominated by the failing edge of
// strconv.Atoi(s) and by a successful MatchString(s) of a package-level
// regular expression compiled (in the package initialiser) from a pattern
// that admits only one to nine ASCII digits: such a string always parses, so
// the block is unreachable.
func atoiAfterDigitsMatch(e *Env, pb *ssa.BasicBlock) bool {
	var atoiArg string
	a := dominatedBy(pb, func(f gate.Fact) bool {
		if f.Kind == gate.FErrSet && prov.CalleeName(&f.Call.Call) == "strconv.Atoi" {
			atoiArg = prov.Of(f.Call.Call.Args[0])
			return true
		}
		return false
	})
	if !a {
		return false
	}
	var reGlobal string
	m := dominatedBy(pb, func(f gate.Fact) bool {
		if f.Kind == gate.FBool && f.Val && f.Call != nil && prov.CalleeName(&f.Call.Call) == "(*regexp.Regexp).MatchString" &&
			len(f.Call.Call.Args) == 2 && prov.Of(f.Call.Call.Args[1]) == atoiArg && strings.HasPrefix(prov.Of(f.Call.Call.Args[0]), "global:") {
			reGlobal = prov.Of(f.Call.Call.Args[0])
			return true
		}
		return false
	})
	if !m {
		return false
	}
	digits := regexp.MustCompile(`^const:"\^(\\\\d){1,9}\$"$`)
	for _, in := range e.P.Funcs {
		if in.Name() != "init" || in.Parent() != nil {
			continue
		}
		for _, b := range in.Blocks {
			for _, i2 := range b.Instrs {
				st, ok := i2.(*ssa.Store)
				if !ok || prov.Of(st.Addr) != reGlobal {
					continue
				}
				c, ok := st.Val.(*ssa.Call)
				if ok && prov.CalleeName(&c.Call) == "regexp.MustCompile" && digits.MatchString(prov.Of(c.Call.Args[0])) {
					return true
				}
			}
		}
	}
	return false
}

// exemptionHolds re-checks the justification of the two documented sites.
func exemptionHolds(e *Env, fn *ssa.Function, pb *ssa.BasicBlock) bool {
	switch load.FuncName(fn) {
	case "bundle.loadResponse":
		return atoiAfterDigitsMatch(e, pb)
	case "signedexchange/structuredheader.(*parser).parseByteSequence":
		// dominated by IndexByte(input,'*') >= 0 and by consumeChar('*') == false
		idx := dominatedBy(pb, func(f gate.Fact) bool {
			return f.Kind == gate.FCmp && f.Op == token.GEQ && strings.HasPrefix(prov.Of(f.X), "call:strings.IndexByte(") && prov.Of(f.Y) == "const:0"
		})
		cc := dominatedBy(pb, func(f gate.Fact) bool {
			return f.Kind == gate.FBool && !f.Val && f.Call != nil && strings.HasSuffix(prov.CalleeName(&f.Call.Call), ".consumeChar")
		})
		return idx && cc
	}
	return false
}

// recursionInScope: call cycles among parser functions.  Edges: static
// callees, invokes of module interfaces (VTA-resolved), and parent -> closure
// (a closure runs on behalf of the function that creates it).  Invokes of
// standard-library interfaces (io.Writer, io.Reader, hash.Hash) and calls
// through function-typed parameters are not edges: VTA merges every
// implementation there and would report a wrapper wrapping itself.
func recursionInScope(e *Env, scope map[*ssa.Function]bool) {
	cg := e.P.VTA()
	succ := func(fn *ssa.Function) []*ssa.Function {
		var out []*ssa.Function
		for _, a := range fn.AnonFuncs {
			out = append(out, a)
		}
		for _, b := range fn.Blocks {
			for _, in := range b.Instrs {
				ci, ok := in.(ssa.CallInstruction)
				if !ok {
					continue
				}
				cc := ci.Common()
				if sc := cc.StaticCallee(); sc != nil {
					if _, isClosure := cc.Value.(*ssa.MakeClosure); !isClosure || true {
						out = append(out, sc)
					}
					continue
				}
				if cc.IsInvoke() {
					if n, ok := cc.Value.Type().(*types.Named); ok && n.Obj().Pkg() != nil && strings.HasPrefix(n.Obj().Pkg().Path(), load.ModulePath) {
						out = append(out, load.Callees(cg, ci)...)
					}
				}
			}
		}
		return out
	}
	var rec []string
	for _, fn := range sortedFuncs(scope) {
		seen := map[*ssa.Function]bool{}
		stack := succ(fn)
		found := false
		for len(stack) > 0 && !found {
			f := stack[len(stack)-1]
			stack = stack[:len(stack)-1]
			if f == fn {
				found = true
				break
			}
			if seen[f] || !scope[f] {
				continue
			}
			seen[f] = true
			stack = append(stack, succ(f)...)
		}
		if found {
			rec = append(rec, load.FuncName(fn))
		}
	}
	if len(rec) == 0 {
		e.R.OK("RECURSION", "parser-scope", "-", "no recursive call cycle among the functions reachable from the parser entry points (stack depth is bounded by the static call depth)")
	} else {
		for _, r := range rec {
			e.R.Fail("RECURSION", r, "-", "recursive parser function: each recursive call must receive a strictly shorter input, which this rule does not establish")
		}
	}
}
