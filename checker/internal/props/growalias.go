package props

import (
	"fmt"
	"go/constant"

	"golang.org/x/tools/go/ssa"

	"wpverif/internal/load"
	"wpverif/internal/prov"
)

// growableViewsDisjoint is rule GROWVIEW: a growable view — the argument of
// bytes.NewBuffer or the first argument of append — that is a slice
// expression x[lo:hi] without an explicit capacity limit can be written up to
// the end of x.  Two growable views over the same base inside one function
// must therefore be provably disjoint (constant bounds, the earlier one
// capped at or below the start of the later one); otherwise bytes written
// through one land in the other (seed C11-f: key and value buffers of a map
// entry carved out of one scratch array).  Every growable view is an
// obligation, so the rule is not vacuous on a tree that has none over a
// shared base.
func growableViewsDisjoint(e *Env, floor int, prefixes ...string) {
	type view struct {
		sl  *ssa.Slice
		in  ssa.Instruction
		how string
	}
	n := 0
	for _, fn := range e.P.Funcs {
		if !e.P.IsLibrary(fn) || !hasPrefixAny(load.FuncName(fn), prefixes...) {
			continue
		}
		byBase := map[string][]view{}
		var order []string
		cnt := map[string]int{}
		for _, b := range fn.Blocks {
			for _, in := range b.Instrs {
				c, ok := in.(*ssa.Call)
				if !ok || len(c.Call.Args) == 0 {
					continue
				}
				cn := prov.CalleeName(&c.Call)
				if cn != "bytes.NewBuffer" && cn != "builtin:append" {
					continue
				}
				a := c.Call.Args[0]
				for {
					if ct, ok := a.(*ssa.ChangeType); ok {
						a = ct.X
						continue
					}
					break
				}
				sl, ok := a.(*ssa.Slice)
				if !ok {
					if cn == "bytes.NewBuffer" {
						n++
						cnt[cn]++
						e.R.OK("GROWVIEW", fmt.Sprintf("%s:%s#%d", load.FuncName(fn), cn, cnt[cn]), e.P.InstrPos(in), "the buffer takes a whole slice value, not a window of a larger object")
					}
					continue
				}
				k := prov.Of(rootOfWindows(sl))
				if _, seen := byBase[k]; !seen {
					order = append(order, k)
				}
				byBase[k] = append(byBase[k], view{sl, in, cn})
			}
		}
		ci := func(v ssa.Value, def int64) (int64, bool) {
			if v == nil {
				return def, true
			}
			if c, ok := v.(*ssa.Const); ok && c.Value != nil && c.Value.Kind() == constant.Int {
				x, ok := constant.Int64Val(c.Value)
				return x, ok
			}
			return 0, false
		}
		const inf = int64(1) << 62
		for _, k := range order {
			vs := byBase[k]
			for i, v := range vs {
				n++
				cnt[v.how]++
				key := fmt.Sprintf("%s:%s#%d(window of %s)", load.FuncName(fn), v.how, cnt[v.how], short(k))
				bad := ""
				for j, w := range vs {
					if i == j {
						continue
					}
					lo1, mx1, okA := windowRange(v.sl, ci, inf)
					lo2, mx2, okB := windowRange(w.sl, ci, inf)
					ok1, ok2, ok3, ok4 := okA, okA, okB, okB
					if ok1 && ok2 && ok3 && ok4 && (mx1 <= lo2 || mx2 <= lo1) {
						continue
					}
					bad = fmt.Sprintf("another growable view of the same base is created at %s and the two capacity ranges [%d,%s) and [%d,%s) are not provably disjoint", e.P.InstrPos(w.in), lo1, capStr(mx1, ok2, inf), lo2, capStr(mx2, ok4, inf))
					break
				}
				if bad == "" {
					e.R.OK("GROWVIEW", key, e.P.InstrPos(v.in), "sole growable view of its base in this function, or provably disjoint from the others")
				} else {
					e.R.Fail("GROWVIEW", key, e.P.InstrPos(v.in), "bytes written through this view can land in another one: "+bad)
				}
			}
		}
	}
	e.R.Counts["growable_views"] = n
	e.R.Floor("GROWVIEW", floor)
}

func capStr(v int64, ok bool, inf int64) string {
	if !ok {
		return "?"
	}
	if v == inf {
		return "end"
	}
	return fmt.Sprint(v)
}

// rootOfWindows: the object a (possibly nested) slice expression is a window of.
func rootOfWindows(sl *ssa.Slice) ssa.Value {
	v := ssa.Value(sl)
	for {
		switch x := v.(type) {
		case *ssa.Slice:
			v = x.X
		case *ssa.ChangeType:
			v = x.X
		default:
			return v
		}
	}
}

// windowRange: the absolute [low, capacity end) of a nested slice expression
// x[a:..:m1][b:..:m2]… relative to its root, when all bounds are constants.
func windowRange(sl *ssa.Slice, ci func(ssa.Value, int64) (int64, bool), inf int64) (lo, mx int64, ok bool) {
	var chain []*ssa.Slice
	v := ssa.Value(sl)
	for {
		if x, isSl := v.(*ssa.Slice); isSl {
			chain = append(chain, x)
			v = x.X
			continue
		}
		if ct, isCt := v.(*ssa.ChangeType); isCt {
			v = ct.X
			continue
		}
		break
	}
	lo, mx, ok = 0, inf, true
	for i := len(chain) - 1; i >= 0; i-- { // outermost base first
		l, ok1 := ci(chain[i].Low, 0)
		m, ok2 := ci(chain[i].Max, inf)
		if !ok1 || !ok2 {
			return 0, 0, false
		}
		if m != inf && lo+m < mx {
			mx = lo + m
		}
		lo += l
	}
	return lo, mx, true
}
