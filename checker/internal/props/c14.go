package props

import (
	"fmt"
	"go/constant"
	"go/token"
	"strings"

	"golang.org/x/tools/go/ssa"

	"wpverif/internal/gate"
	"wpverif/internal/prov"
)

func init() { register("C14", checkC14) }

// the record-count expression is left open in every pattern: its value is
// decided separately (record-count obligations)
const tNR = "*"

func miceCfg(enc string, extra ...gate.Assumption) gcfg {
	a := []gate.Assumption{{ProvPat: "param:enc", Value: fmt.Sprintf("%q", enc)}}
	a = append(a, extra...)
	name := "enc=" + enc
	for _, x := range extra {
		name += "," + x.String()
	}
	return gcfg{name: name, assume: a}
}

func checkC14(e *Env) {
	e.R.Explanation = "Decided (narrow structural necessary conditions of C14; the behaviour — decode(encode(p)) == p and equality with the draft's recursive definition for every payload — is NOT decided): stream layout: the 8-byte big-endian record size is written first (not at all for the empty payload of draft-03), then for every proof in order its record, preceded by the proof itself for all but the first; the record written is buf[i*rs : min((i+1)*rs, len(buf))]; proof chain: the last record (i == 0 of the backward loop) hashes its bytes then 0x00, every other record hashes its rs bytes, then the proof of its successor (index rec+1 where rec is the index the result is stored at), then 0x01; the digest returned is FormatDigestHeader(proofs[0]) = ContentEncoding \"=\" base64(proof) with the per-draft alphabet (draft-02 raw URL, draft-03 standard), the same alphabet and algorithm name parseDigestHeader uses; empty payload: draft-03 returns the digest of SHA-256(0x00) and writes nothing, draft-02 encodes one (empty) record; the record count, evaluated by constant propagation on a grid of (length, record size) pairs covering both residue classes and the boundary, is ceil(len/rs) — this last obligation is sampling, not a proof. the decoder constructor refuses a stream only for an unparsable digest header, an unreadable record size, a record size of 0 or above the caller's limit, or an empty stream whose proof is not SHA-256(0x00) (no other rejecting branch). The decoder's unit logic (record+proof units validated with the flag Encode hashed them with, short last unit, nothing released before validation) is checked by the typestate rules shared with C15. " +
		"Not decided: the round trip and digest equality for all payloads and record sizes (value-level); record sizes < 1."
	e.R.RuleText = "emission-order rule in the specialised CFG (draft, emptiness, loop position); provenance of the written slices and of the hash inputs; E7 tables per draft; constant propagation of the record-count expression on a (len, rs) grid"
	enc := e.fn("signedexchange/mice.(Encoding).Encode")
	if enc == nil {
		return
	}
	out := gate.Outcome{Kind: gate.ErrNil, Idx: 1}
	nonEmpty := gate.Assumption{ProvPat: "len(param:buf)", Value: "0", NotEqual: true}
	empty := gate.Assumption{ProvPat: "len(param:buf)", Value: "0"}
	sizeW := beWrite("L.record-size", "param:w", 8, "conv(param:recordSize)", true)
	proofW := step{"proof", gate.CallInstr("", "invoke:io.Writer.Write", "param:w", "make([][]byte,"+tNR+")[rangeidx]")}
	recW := step{"record", gate.CallInstr("", "invoke:io.Writer.Write", "param:w", "slice(param:buf,(rangeidx * param:recordSize),phi(((rangeidx + const:1) * param:recordSize)|len(param:buf)))")}
	sizeS := step{"record-size", beWrite("", "param:w", 8, "conv(param:recordSize)", false)}
	for _, c := range []gcfg{miceCfg("mi-sha256-03", nonEmpty), miceCfg("mi-sha256-draft2", nonEmpty), miceCfg("mi-sha256-draft2", empty)} {
		e.requireGates("GATE", enc, out, c, sizeW)
		e.sequenceOrder("ORDER", enc, c, "stream", []step{sizeS, recW})
		e.sequenceOrder("ORDER", enc, c, "stream", []step{sizeS, proofW})
	}
	// every proof position: its record is written, preceded by the proof except at position 0
	mid := gcfg{name: "position>0", assume: []gate.Assumption{{ProvPat: "rangeidx", Value: "0", NotEqual: true}}}
	first := gcfg{name: "position=0", assume: []gate.Assumption{{ProvPat: "rangeidx", Value: "0"}}}
	tProofs := "make([][]byte," + tNR + ")"
	forAllIterations(e, "FORALL", enc, tProofs, noCfg, gate.CallOK("L.record", "invoke:io.Writer.Write", "param:w", "slice(param:buf,(rangeidx * param:recordSize),phi(((rangeidx + const:1) * param:recordSize)|len(param:buf)))"))
	forAllIterations(e, "FORALL", enc, tProofs, mid, gate.CallOK("L.proof", "invoke:io.Writer.Write", "param:w", tProofs+"[rangeidx]"))
	e.gatesBefore("ORDER", enc, mid, "proof-precedes-record", recW.g.Instr, gate.CallOK("L.proof", "invoke:io.Writer.Write", "param:w", tProofs+"[rangeidx]"))
	// at position 0 no proof is written
	{
		ctx := gate.New(e.P, e.P.VTA(), first.assume...)
		reached := false
		for _, b := range ctx.ReachableBlocks(enc) {
			for _, in := range b.Instrs {
				if proofW.g.Instr(in) {
					// reachable from the loop body entry under position=0?
					reached = reached || reachableFromLoopBody(ctx, enc, in)
				}
			}
		}
		if !reached {
			e.R.OK("ORDER", "signedexchange/mice.(Encoding).Encode:first-record-has-no-proof", e.P.Pos(enc.Pos()), "the first record is not preceded by a proof (its proof is the digest)").Config = first.name
		} else {
			e.R.Fail("ORDER", "signedexchange/mice.(Encoding).Encode:first-record-has-no-proof", e.P.Pos(enc.Pos()), "a proof is written in front of the first record").Config = first.name
		}
	}
	// the upper bound of the record slice is clamped to len(buf)
	e.gatesBefore("GATE", enc, noCfg, "write-record", recW.g.Instr,
		either("L.clamp", "(i+1)*rs <= len(buf), or the bound was replaced by len(buf)",
			gate.Cmp("", "((rangeidx + const:1) * param:recordSize)", token.LEQ, "len(param:buf)"),
			gate.Cmp("", "((rangeidx + const:1) * param:recordSize)", token.GTR, "len(param:buf)")))
	clampPhi(e, enc)

	// proof chain
	proofChain(e, enc)

	// digest and header format
	for _, c := range []gcfg{miceCfg("mi-sha256-03", nonEmpty), miceCfg("mi-sha256-draft2")} {
		ctx := gate.New(e.P, e.P.VTA(), c.assume...)
		got := ctx.ExitsUnder(enc, 0)
		want := "call:(mice.Encoding).FormatDigestHeader(param:enc," + tProofs + "[const:0])"
		okk := len(got) > 0
		for _, g := range got {
			if !prov.Match(want, g) && g != `const:""` {
				okk = false
			}
		}
		key := "Encode:digest-is-first-proof"
		if okk {
			e.R.OK("RESULT", key, e.P.Pos(enc.Pos()), "the digest is FormatDigestHeader(proofs[0])").Config = c.name
		} else {
			e.R.Fail("RESULT", key, e.P.Pos(enc.Pos()), "the digest returned is not built from the first proof: "+strings.Join(got, " | ")).Config = c.name
		}
	}
	fd := e.fn("signedexchange/mice.(Encoding).FormatDigestHeader")
	e.requireResult("RESULT", fd, gate.Outcome{Kind: gate.AnyReturn}, 0,
		`((call:(mice.Encoding).ContentEncoding(param:enc) + const:"=") + call:(*base64.Encoding).EncodeToString(call:(mice.Encoding).base64Encoding(param:enc),param:topLevelProof))`,
		`ContentEncoding "=" base64(proof)`)
	e.requireResult("RESULT", e.fn("signedexchange/mice.(Encoding).ContentEncoding"), gate.Outcome{Kind: gate.AnyReturn}, 0, "param:enc", "the encoding's name")
	for encName, alpha := range map[string]string{"mi-sha256-draft2": "global:base64.RawURLEncoding", "mi-sha256-03": "global:base64.StdEncoding"} {
		cfg := gcfg{name: "enc=" + encName, assume: []gate.Assumption{{TypeName: "signedexchange/mice.Encoding", Value: fmt.Sprintf("%q", encName)}}}
		tableConst(e, "base64Encoding:"+encName, "-", exitsUnder(e, "signedexchange/mice.(Encoding).base64Encoding", cfg, 0), alpha)
	}
	pd := e.fn("signedexchange/mice.(Encoding).parseDigestHeader")
	e.requireGates("GATE", pd, gate.Outcome{Kind: gate.ErrNil, Idx: 1}, noCfg,
		gate.Cmp("P.algorithm", "*", token.EQL, "call:(mice.Encoding).ContentEncoding(param:enc)"),
		gate.CallOK("P.base64", "(*base64.Encoding).DecodeString", "call:(mice.Encoding).base64Encoding(param:enc)",
			`{call:strings.SplitN(param:digestHeaderValue,const:"=",const:2)[const:1]|call:strings.Cut(param:digestHeaderValue,const:"=")#1}`))

	// empty payload
	{
		c := miceCfg("mi-sha256-03", empty)
		ctx := gate.New(e.P, e.P.VTA(), c.assume...)
		wrote := false
		for _, b := range ctx.ReachableBlocks(enc) {
			for _, in := range b.Instrs {
				if ci, ok := in.(ssa.CallInstruction); ok {
					for _, a := range ci.Common().Args {
						if prov.Of(a) == "param:w" {
							wrote = true
						}
					}
					if ci.Common().IsInvoke() && prov.Of(ci.Common().Value) == "param:w" {
						wrote = true
					}
				}
			}
		}
		ex := ctx.ExitsUnder(enc, 0)
		// SHA-256 over the single byte 0: New/Write/Sum, or Sum256 of the literal
		want := "call:(mice.Encoding).FormatDigestHeader(param:enc,{invoke:hash.Hash.Sum(call:sha256.New(),const:nil)|call:sha256.Sum256(alloc:[1]byte)})"
		if !wrote && len(ex) == 1 && prov.Match(want, ex[0]) && len(flagStoresFrom(ctx, enc, nil)) == 1 && flagStoresFrom(ctx, enc, nil)[0] == "0" {
			e.R.OK("TABLE", "Encode:draft03-empty", e.P.Pos(enc.Pos()), "empty payload: nothing is written, the digest is that of SHA-256(0x00)").Config = c.name
		} else {
			e.R.Fail("TABLE", "Encode:draft03-empty", e.P.Pos(enc.Pos()), "draft-03 empty payload must encode as the empty message with digest SHA-256(0x00)",
				fmt.Sprintf("writes to w: %v; result: %v; flag bytes: %v", wrote, ex, flagStoresFrom(ctx, enc, nil))).Config = c.name
		}
	}
	// record count
	var nr ssa.Value
	for _, b := range enc.Blocks {
		for _, in := range b.Instrs {
			if ms, ok := in.(*ssa.MakeSlice); ok && strings.HasPrefix(prov.Of(ms), "make([][]byte,") {
				nr = ms.Len
			}
		}
	}
	if nr == nil {
		// the table is allocated by a helper from one of its parameters: the
		// count is the argument Encode passes
		for _, c := range unknownHelperCalls(e, enc) {
			h := c.Call.StaticCallee()
			for _, b := range h.Blocks {
				for _, in := range b.Instrs {
					ms, ok := in.(*ssa.MakeSlice)
					if !ok || !strings.HasPrefix(ms.Type().String(), "[][]byte") {
						continue
					}
					if p, isParam := ms.Len.(*ssa.Parameter); isParam {
						for i, hp := range h.Params {
							if hp == p {
								nr = c.Call.Args[i]
							}
						}
					}
				}
			}
		}
	}
	if nr == nil {
		e.R.Undecided("TABLE", "Encode:record-count", e.P.Pos(enc.Pos()), "cannot find the proof table make([][]byte, numRecords)")
	} else {
		type pt struct{ l, rs, want int }
		var grid []pt
		seenPt := map[[2]int]bool{}
		for _, rs := range []int{1, 2, 3, 16, 4096, 16384} {
			for _, l := range []int{1, 2, rs - 1, rs, rs + 1, 2*rs - 1, 2 * rs, 2*rs + 1, 3 * rs, 7*rs + 1} {
				if l < 1 || seenPt[[2]int{l, rs}] {
					continue
				}
				seenPt[[2]int{l, rs}] = true
				grid = append(grid, pt{l, rs, (l + rs - 1) / rs})
			}
		}
		for _, encName := range []string{"mi-sha256-03", "mi-sha256-draft2"} {
			for _, g := range grid {
				c := miceCfg(encName, gate.Assumption{ProvPat: "len(param:buf)", Value: fmt.Sprint(g.l)}, gate.Assumption{ProvPat: "param:recordSize", Value: fmt.Sprint(g.rs)})
				ctx := gate.New(e.P, e.P.VTA(), c.assume...)
				got, ok := ctx.EvalValue(enc, nr)
				key := fmt.Sprintf("Encode:record-count(len=%d,rs=%d)", g.l, g.rs)
				if ok && got == fmt.Sprint(g.want) {
					e.R.OK("TABLE", key, e.P.Pos(enc.Pos()), fmt.Sprintf("%d record(s)", g.want)).Config = "enc=" + encName
				} else {
					e.R.Fail("TABLE", key, e.P.Pos(enc.Pos()), fmt.Sprintf("record count evaluates to %q (ok=%v), the draft needs %d", got, ok, g.want)).Config = "enc=" + encName
				}
			}
		}
		c := miceCfg("mi-sha256-draft2", empty)
		for _, rs := range []int{1, 2, 16, 16384} {
			cc := c
			cc.assume = append(append([]gate.Assumption{}, c.assume...), gate.Assumption{ProvPat: "param:recordSize", Value: fmt.Sprint(rs)})
			ctx := gate.New(e.P, e.P.VTA(), cc.assume...)
			got, ok := ctx.EvalValue(enc, nr)
			key := fmt.Sprintf("Encode:record-count(draft-02,empty,rs=%d)", rs)
			if ok && got == "1" {
				e.R.OK("TABLE", key, e.P.Pos(enc.Pos()), "one (empty) record").Config = cc.name
			} else {
				e.R.Fail("TABLE", key, e.P.Pos(enc.Pos()), fmt.Sprintf("draft-02 encodes the empty payload as one empty record; the count evaluates to %q (ok=%v)", got, ok)).Config = cc.name
			}
		}
	}
	// the decoder refuses the encoder's stream on no other ground than the listed ones
	nd := e.fn("signedexchange/mice.(Encoding).NewDecoder")
	tTop := "call:(mice.Encoding).parseDigestHeader(param:enc,param:digestHeaderValue)#0"
	rejectionsListed(e, "REJECT", nd, gate.Outcome{Kind: gate.ErrNil, Idx: 1}, noCfg, []gate.Gate{
		gate.CallOK("N.digest", "(mice.Encoding).parseDigestHeader", "param:enc", "param:digestHeaderValue"),
		readSizeOK(),
		gate.Cmp("N.nonzero", tRecSize, token.NEQ, "const:0"),
		gate.Cmp("N.max", tRecSize, token.LEQ, "param:maxRecordSize"),
		gate.CallBool("N.empty-valid", "mice.validateRecord", true, "const:nil", tTop, "const:true"),
		// the empty-stream shortcut: an unreadable size is refused unless it is the EOF of a non-draft-02 stream
		errIs("N.empty-eof", tReadSizeErr, "global:io.EOF"),
		gate.Cmp("N.empty-not-draft02", "param:enc", token.NEQ, `const:"mi-sha256-draft2"`),
	}, "digest header parses, record size readable, 0 < record size <= maxRecordSize, empty stream matches SHA-256(0x00)")
	// the decoder side of the round trip: record+proof units, last unit short,
	// flags 0x00/0x01 as Encode hashes them (the typestate rules of C15)
	c15Obligations(e, "C14 inherits")
	e.R.Floor("REJECT", 4)
	e.R.Floor("ORDER", 8)
	e.R.Floor("TABLE", 80)
	e.R.Floor("GATE", 5)
	e.R.Floor("RESULT", 4)
	e.R.Floor("CHAIN", 5)
}

// reachableFromLoopBody: instruction in is reachable, under ctx, from the body
// entry of the range loop it belongs to (the successor of the header taken
// when the range continues).
func reachableFromLoopBody(ctx *gate.Ctx, fn *ssa.Function, in ssa.Instruction) bool {
	for _, b := range fn.Blocks {
		ifi, ok := b.Instrs[len(b.Instrs)-1].(*ssa.If)
		if !ok {
			continue
		}
		if c, ok := ifi.Cond.(*ssa.BinOp); ok && c.Op == token.LSS && prov.Of(c.X) == "rangeidx" {
			first := b.Succs[0].Instrs[0]
			if first == in || ctx.Reaches(first, in) {
				return true
			}
		}
	}
	return false
}

// clampPhi: the upper bound of the record slice is (i+1)*rs on the edge where
// it is <= len(buf), and len(buf) otherwise.
func clampPhi(e *Env, enc *ssa.Function) {
	key := "signedexchange/mice.(Encoding).Encode:record-upper-bound"
	// (in Encode, or in a helper the rule tables do not know, its parameters
	// standing for Encode's arguments)
	for _, c := range unknownHelperCalls(e, enc) {
		h := c.Call.StaticCallee()
		has := false
		for _, b := range h.Blocks {
			for _, in := range b.Instrs {
				if ph, ok := in.(*ssa.Phi); ok && prov.CanonLocal(ph.Parent(), ph.Comment) == "high" {
					has = true
				}
			}
		}
		if has {
			prov.PushSubst(h, &c.Call)
			defer prov.PopSubst()
			enc = h
			break
		}
	}
	for _, b := range enc.Blocks {
		for _, in := range b.Instrs {
			ph, ok := in.(*ssa.Phi)
			if !ok || prov.CanonLocal(ph.Parent(), ph.Comment) != "high" {
				continue
			}
			okk := len(ph.Edges) == 2
			for i, ed := range ph.Edges {
				t := prov.Of(ed)
				pb := b.Preds[i]
				switch t {
				case "len(param:buf)":
					// must come from the edge where (i+1)*rs > len(buf)
					if !dominatedOrEdge(pb, b, func(f gate.Fact) bool {
						const hi, ln = "((rangeidx + const:1) * param:recordSize)", "len(param:buf)"
						return f.Kind == gate.FCmp && ((f.Op == token.GTR && prov.Of(f.X) == hi && prov.Of(f.Y) == ln) || (f.Op == token.LSS && prov.Of(f.X) == ln && prov.Of(f.Y) == hi))
					}) {
						okk = false
					}
				case "((rangeidx + const:1) * param:recordSize)":
				default:
					okk = false
				}
			}
			if okk {
				e.R.OK("GATE", key, e.P.InstrPos(ph), "high = (i+1)*rs, replaced by len(buf) exactly when it exceeds it")
			} else {
				e.R.Fail("GATE", key, e.P.InstrPos(ph), "the record's upper bound is not min((i+1)*rs, len(buf))")
			}
			return
		}
	}
	e.R.Undecided("GATE", key, e.P.Pos(enc.Pos()), "cannot find the clamped upper bound 'high'")
}

func dominatedOrEdge(from, to *ssa.BasicBlock, pred func(gate.Fact) bool) bool {
	if ifi, ok := from.Instrs[len(from.Instrs)-1].(*ssa.If); ok {
		for i, s := range from.Succs {
			if s == to {
				for _, f := range gate.EdgeFacts(ifi.Cond, i == 0) {
					if pred(f) {
						return true
					}
				}
			}
		}
	}
	return dominatedBy(from, pred)
}

// encodeArms identifies the two hashing arms of Encode's proof loop by their
// shape: the arm of the last record hashes an open-ended slice of the payload
// and a flag; the arm of every other record hashes a bounded slice, a proof
// read from the proof table and a flag.
func encodeArms(enc *ssa.Function) (last, mid []*ssa.Call) {
	for _, b := range enc.Blocks {
		var ws []*ssa.Call
		hasProofRead := false
		for _, in := range b.Instrs {
			if c, ok := in.(*ssa.Call); ok && prov.CalleeName(&c.Call) == "invoke:hash.Hash.Write" {
				ws = append(ws, c)
				if strings.HasPrefix(prov.Of(c.Call.Args[0]), "make([][]byte,") {
					hasProofRead = true
				}
			}
		}
		if len(ws) == 2 && !hasProofRead && !blockHasFormat(b) {
			if sl, ok := ws[0].Call.Args[0].(*ssa.Slice); ok && prov.Of(sl.X) == "param:buf" {
				last = ws
			}
		}
		if len(ws) == 3 && hasProofRead {
			mid = ws
		}
	}
	return
}

// proofHost: the function that holds the hashing arms of the proof loop:
// Encode itself, or a helper the rule tables do not know that Encode calls
// (computeProofs(buf, recordSize, n)).  For a helper the substitution frame is
// left pushed (parameters render as Encode's arguments); the caller must call
// the returned function when done.
func proofHost(e *Env, enc *ssa.Function) (*ssa.Function, func()) {
	if l, m := encodeArms(enc); l != nil && m != nil {
		return enc, func() {}
	}
	for _, c := range unknownHelperCalls(e, enc) {
		h := c.Call.StaticCallee()
		prov.PushSubst(h, &c.Call)
		if l, m := encodeArms(h); l != nil && m != nil {
			return h, prov.PopSubst
		}
		prov.PopSubst()
	}
	return enc, func() {}
}

// proofChain: hash inputs of the proof loop, which visits the records from the
// last one backwards (counting i up with rec = N-i-1, or counting rec down).
func proofChain(e *Env, enc *ssa.Function) {
	name := "signedexchange/mice.(Encoding).Encode"
	enc, done := proofHost(e, enc)
	defer done()
	lw, mw := encodeArms(enc)
	if lw == nil || mw == nil {
		e.R.Undecided("CHAIN", name+":hash-blocks", e.P.Pos(enc.Pos()), "cannot identify the two hashing arms of the proof loop")
		return
	}
	isConst := func(v ssa.Value, n int64) bool {
		k, ok := v.(*ssa.Const)
		return ok && k.Value != nil && k.Value.Kind() == constant.Int && k.Int64() == n
	}
	var nrec ssa.Value // the value that sizes the proof table
	for _, b := range enc.Blocks {
		for _, in := range b.Instrs {
			if ms, ok := in.(*ssa.MakeSlice); ok && strings.HasPrefix(prov.Of(ms), "make([][]byte,") {
				nrec = ms.Len
			}
		}
	}
	// rec*rs as a value: returns rec
	recOf := func(v ssa.Value) ssa.Value {
		if m, ok := v.(*ssa.BinOp); ok && m.Op == token.MUL && prov.Of(m.Y) == "param:recordSize" {
			return m.X
		}
		return nil
	}
	// last record: buf[rec*rs:], then the flag 0
	sl, _ := lw[0].Call.Args[0].(*ssa.Slice)
	if sl != nil && sl.High == nil && sl.Low != nil && recOf(sl.Low) != nil && flagOf(lw[1]) == "0" {
		e.R.OK("CHAIN", name+":last-record-input", e.P.InstrPos(lw[0]), "last record hashes buf[rec*rs:] and then the flag byte 0x00")
	} else {
		e.R.Fail("CHAIN", name+":last-record-input", e.P.InstrPos(lw[0]), "the last record's proof is not SHA-256(record || flag 0)")
	}
	// other records: buf[rec*rs : rec*rs+rs], proofs[rec+1], flag 1
	sl2, _ := mw[0].Call.Args[0].(*ssa.Slice)
	var rec ssa.Value
	okRec := false
	if sl2 != nil && prov.Of(sl2.X) == "param:buf" && sl2.Low != nil && sl2.High != nil {
		rec = recOf(sl2.Low)
		if rec != nil {
			switch hi := sl2.High.(type) {
			case *ssa.BinOp:
				// (rec+1)*rs
				if r2 := recOf(hi); r2 != nil {
					if add, ok := r2.(*ssa.BinOp); ok && add.Op == token.ADD && add.X == rec && isConst(add.Y, 1) {
						okRec = true
					}
				}
				// rec*rs + rs
				if hi.Op == token.ADD && ((hi.X == sl2.Low && prov.Of(hi.Y) == "param:recordSize") || (hi.Y == sl2.Low && prov.Of(hi.X) == "param:recordSize")) {
					okRec = true
				}
			}
		}
	}
	if okRec {
		e.R.OK("CHAIN", name+":record-input", e.P.InstrPos(mw[0]), "a non-last record hashes exactly buf[rec*rs:(rec+1)*rs]")
	} else {
		e.R.Fail("CHAIN", name+":record-input", e.P.InstrPos(mw[0]), "a non-last record does not hash exactly its rs bytes")
	}
	okNext := false
	if u, ok := mw[1].Call.Args[0].(*ssa.UnOp); ok {
		if ia, ok := u.X.(*ssa.IndexAddr); ok {
			if add, ok := ia.Index.(*ssa.BinOp); ok && add.Op == token.ADD && rec != nil && add.X == rec && isConst(add.Y, 1) {
				okNext = true
			}
		}
	}
	if okNext && flagOf(mw[2]) == "1" {
		e.R.OK("CHAIN", name+":successor-proof", e.P.InstrPos(mw[1]), "then the proof of its successor (proofs[rec+1]), then the flag byte 0x01")
	} else {
		e.R.Fail("CHAIN", name+":successor-proof", e.P.InstrPos(mw[1]), "a non-last record's proof does not chain the successor's proof (proofs[rec+1]) before the flag 1")
	}
	okStore := false
	for _, b := range enc.Blocks {
		for _, in := range b.Instrs {
			if st, ok := in.(*ssa.Store); ok {
				if ia, ok := st.Addr.(*ssa.IndexAddr); ok && strings.HasPrefix(prov.Of(ia.X), "make([][]byte,") {
					if ia.Index == rec && prov.Of(st.Val) == "invoke:hash.Hash.Sum(call:sha256.New(),const:nil)" {
						okStore = true
					}
				}
			}
		}
	}
	if okStore {
		e.R.OK("CHAIN", name+":proof-stored-at-rec", e.P.Pos(enc.Pos()), "the hash is stored as proofs[rec] for the same rec")
	} else {
		e.R.Fail("CHAIN", name+":proof-stored-at-rec", e.P.Pos(enc.Pos()), "the computed proof is not stored at the index of the record it covers")
	}
	// rec runs N-1, N-2, ..., 0; the last-record arm is taken exactly for rec == N-1
	backward, lastArm := false, false
	lastBlk := lw[0].Block()
	nMinus1 := func(v ssa.Value) bool {
		b, ok := v.(*ssa.BinOp)
		return ok && b.Op == token.SUB && b.X == nrec && isConst(b.Y, 1)
	}
	switch r := rec.(type) {
	case *ssa.BinOp:
		// rec = (N - i) - 1, i counting up from 0 while i < N
		if r.Op == token.SUB && isConst(r.Y, 1) {
			if inner, ok := r.X.(*ssa.BinOp); ok && inner.Op == token.SUB && inner.X == nrec {
				if ph, ok := inner.Y.(*ssa.Phi); ok && prov.Of(ph) == "phi((↺ + const:1)|const:0)" {
					if ifi, ok := ph.Block().Instrs[len(ph.Block().Instrs)-1].(*ssa.If); ok {
						if c, ok := ifi.Cond.(*ssa.BinOp); ok && c.Op == token.LSS && c.X == ssa.Value(ph) && c.Y == nrec {
							backward = true
						}
					}
					lastArm = dominatedBy(lastBlk, func(f gate.Fact) bool {
						return f.Kind == gate.FCmp && f.Op == token.EQL && f.X == ssa.Value(ph) && isConst(f.Y, 0)
					})
				}
			}
		}
	case *ssa.Phi:
		// rec counts down from N-1 while rec >= 0
		var init ssa.Value
		dec := false
		for _, ed := range r.Edges {
			if b, ok := ed.(*ssa.BinOp); ok && b.Op == token.SUB && b.X == ssa.Value(r) && isConst(b.Y, 1) {
				dec = true
			} else {
				init = ed
			}
		}
		if dec && init != nil && nMinus1(init) {
			if ifi, ok := r.Block().Instrs[len(r.Block().Instrs)-1].(*ssa.If); ok {
				if c, ok := ifi.Cond.(*ssa.BinOp); ok && c.X == ssa.Value(r) && ((c.Op == token.GEQ && isConst(c.Y, 0)) || (c.Op == token.GTR && isConst(c.Y, -1))) {
					backward = true
				}
			}
			lastArm = dominatedBy(lastBlk, func(f gate.Fact) bool {
				return f.Kind == gate.FCmp && f.Op == token.EQL && f.X == ssa.Value(r) && (f.Y == init || nMinus1(f.Y))
			})
		}
	}
	if backward {
		e.R.OK("CHAIN", name+":backward-order", e.P.Pos(enc.Pos()), "rec takes the values N-1, N-2, ..., 0 for the N that sizes the proof table: proofs are computed from the last record backwards")
	} else {
		e.R.Fail("CHAIN", name+":backward-order", e.P.Pos(enc.Pos()), "the proof loop does not run from the last record backwards")
	}
	if lastArm {
		e.R.OK("CHAIN", name+":last-record-arm", e.P.InstrPos(lw[0]), "the flag-0 arm is taken exactly for the last record (rec == N-1)")
	} else {
		e.R.Fail("CHAIN", name+":last-record-arm", e.P.InstrPos(lw[0]), "the last-record arm is not selected by rec == N-1")
	}
}

func blockHasFormat(b *ssa.BasicBlock) bool {
	for _, in := range b.Instrs {
		if c, ok := in.(*ssa.Call); ok && prov.CalleeName(&c.Call) == "(mice.Encoding).FormatDigestHeader" {
			return true
		}
	}
	return false
}

// flagOf: the constant stored in the one-byte array passed to a hash write.
func flagOf(c *ssa.Call) string {
	var base ssa.Value = c.Call.Args[0]
	if sl, ok := base.(*ssa.Slice); ok {
		base = sl.X
	}
	al, ok := base.(*ssa.Alloc)
	if !ok {
		return "?"
	}
	val := "?"
	n := 0
	for _, r := range *al.Referrers() {
		ia, ok := r.(*ssa.IndexAddr)
		if !ok {
			continue
		}
		for _, rr := range *ia.Referrers() {
			if st, ok := rr.(*ssa.Store); ok && st.Addr == ia {
				n++
				if k, ok := st.Val.(*ssa.Const); ok {
					val = strings.TrimPrefix(prov.Of(k), "const:")
				}
			}
		}
	}
	if n != 1 {
		return "?"
	}
	return val
}
