package props

import (
	"fmt"
	"go/types"

	"golang.org/x/tools/go/ssa"

	"wpverif/internal/load"
	"wpverif/internal/prov"
)

// naturalLoops returns, for every back edge b -> h (h dominates b), the set
// of blocks of the loop.
func naturalLoops(fn *ssa.Function) []map[*ssa.BasicBlock]bool {
	var out []map[*ssa.BasicBlock]bool
	byHeader := map[*ssa.BasicBlock]map[*ssa.BasicBlock]bool{}
	for _, b := range fn.Blocks {
		for _, h := range b.Succs {
			if !h.Dominates(b) {
				continue
			}
			body := byHeader[h]
			if body == nil {
				body = map[*ssa.BasicBlock]bool{h: true}
				byHeader[h] = body
				out = append(out, body)
			}
			stack := []*ssa.BasicBlock{b}
			for len(stack) > 0 {
				x := stack[len(stack)-1]
				stack = stack[:len(stack)-1]
				if body[x] {
					continue
				}
				body[x] = true
				stack = append(stack, x.Preds...)
			}
		}
	}
	return out
}

// appendedElems: the element values of a builtin append call (variadic form
// with explicit elements).
func appendedElems(c *ssa.Call) []ssa.Value {
	b, ok := c.Call.Value.(*ssa.Builtin)
	if !ok || b.Name() != "append" || len(c.Call.Args) != 2 {
		return nil
	}
	sl, ok := c.Call.Args[1].(*ssa.Slice)
	if !ok {
		return nil
	}
	al, ok := sl.X.(*ssa.Alloc)
	if !ok || al.Comment != "varargs" {
		return nil
	}
	var out []ssa.Value
	for _, r := range *al.Referrers() {
		ia, ok := r.(*ssa.IndexAddr)
		if !ok {
			continue
		}
		for _, rr := range *ia.Referrers() {
			if st, ok := rr.(*ssa.Store); ok && st.Addr == ia {
				out = append(out, st.Val)
			}
		}
	}
	return out
}

// loopAlias (rule ALIAS): inside a loop, a pointer that was created before
// the loop is appended to a slice (or stored into a map / slice element)
// while the object it points to is also written inside the loop: every
// element collected then aliases one object and holds the last iteration's
// data.  Checked in every library function reachable from roots.
func loopAlias(e *Env, rule string, roots ...*ssa.Function) {
	scope := e.P.Reachable(e.P.VTA(), roots...)
	for _, r := range roots {
		scope[r] = true
	}
	for _, fn := range sortedFuncs(scope) {
		if !e.P.InModule(fn) || len(fn.Blocks) == 0 {
			continue
		}
		loops := naturalLoops(fn)
		if len(loops) == 0 {
			continue
		}
		name := load.FuncName(fn)
		n := 0
		for _, body := range loops {
			// objects written inside the loop: roots of store addresses and
			// pointer arguments of calls
			written := map[ssa.Value]bool{}
			var rootOf func(v ssa.Value, d int) ssa.Value
			rootOf = func(v ssa.Value, d int) ssa.Value {
				if d > 8 {
					return v
				}
				switch x := v.(type) {
				case *ssa.FieldAddr:
					return rootOf(x.X, d+1)
				case *ssa.IndexAddr:
					return rootOf(x.X, d+1)
				}
				return v
			}
			for _, b := range fn.Blocks {
				if !body[b] {
					continue
				}
				for _, in := range b.Instrs {
					switch x := in.(type) {
					case *ssa.Store:
						if _, direct := x.Addr.(*ssa.Alloc); !direct {
							written[rootOf(x.Addr, 0)] = true
						}
					case ssa.CallInstruction:
						cc := x.Common()
						if bi, ok := cc.Value.(*ssa.Builtin); ok && bi.Name() == "append" {
							continue
						}
						for _, a := range cc.Args {
							if _, ok := a.Type().Underlying().(*types.Pointer); ok {
								written[a] = true
							}
						}
					}
				}
			}
			for _, b := range fn.Blocks {
				if !body[b] {
					continue
				}
				for _, in := range b.Instrs {
					var elems []ssa.Value
					what := ""
					switch x := in.(type) {
					case *ssa.Call:
						elems = appendedElems(x)
						what = "append"
					case *ssa.MapUpdate:
						elems = []ssa.Value{x.Value}
						what = "map update"
					}
					for _, p := range elems {
						if _, ok := p.Type().Underlying().(*types.Pointer); !ok {
							continue
						}
						n++
						key := fmt.Sprintf("%s:%s(%s)#%d", name, what, short(prov.Of(p)), n)
						def, ok := p.(ssa.Instruction)
						outside := ok && !body[def.Block()]
						if _, isParam := p.(*ssa.Parameter); isParam {
							outside = true
						}
						if outside && written[p] {
							e.R.Fail(rule, key, e.P.InstrPos(in), "the pointer collected in every iteration was created before the loop and the object is rewritten inside it: all collected elements alias the last iteration's data")
						} else {
							e.R.OK(rule, key, e.P.InstrPos(in), "collected pointer is created inside the iteration (or never rewritten in the loop)")
						}
					}
				}
			}
		}
	}
}
