package props

import (
	"go/token"
	"sort"
	"strings"

	"golang.org/x/tools/go/ssa"

	"wpverif/internal/gate"
	"wpverif/internal/load"
	"wpverif/internal/prov"
)

func init() { register("C03", checkC03) }

const tSlots = "make([]*bundle.indexEntry,call:(bundle.Variants).numberOfPossibleKeys(call:bundle.parseVariants(param:es[const:0].Variants)#0)#0)"

// sectionNames: the constant strings returned by the Name() methods of the
// types implementing bundle.section.
func sectionNames(e *Env) []string {
	set := map[string]bool{}
	for _, fn := range e.P.Funcs {
		n := load.FuncName(fn)
		if !strings.HasPrefix(n, "bundle.(*") || !strings.HasSuffix(n, ").Name") {
			continue
		}
		for _, b := range fn.Blocks {
			if r, ok := b.Instrs[len(b.Instrs)-1].(*ssa.Return); ok && len(r.Results) == 1 {
				if k, ok := r.Results[0].(*ssa.Const); ok {
					set[strings.TrimPrefix(prov.Of(k), "const:")] = true
				}
			}
		}
	}
	return sortedKeys(set)
}

func checkC03(e *Env) {
	e.R.Explanation = "Decided (structural necessary conditions of C03): (a) the section names the writer can emit (Name() of the five section types) = keys of knownSections = arms of the reader's section switch, and 'responses' is appended last in WriteTo; (b) nothing dropped: WriteTo passes every element of b.Exchanges through addExchange with its error tested (no skip, no early successful exit) and Read loads and keeps every index entry; (c) location bookkeeping: addResponse takes the buffer length before any write of the response and after all of them, returns (before, after-before), addExchange forwards exactly those to indexSection.addExchange, which stores them in Offset/Length of the entry appended for that exchange's request; (d) variant coverage refused at write time: entriesInPossibleKeyOrder succeeds only if Variants is present and parses, the key count is valid (each axis non-empty, product <= 10000), every entry has the same Variants, every Variant-Key is covered (index != -1), no slot is assigned twice, and no slot stays empty; (e) version b2 refuses several resources per URL; (f) writer/reader key tables of the signatures section agree; header names are lower-cased and values comma-joined on the writer side, upper-case names refused on the reader side. " +
		"Not decided: byte/field equality after the round trip, row-major order of variants, the re-serialisation fixpoint, URL normalisation by net/url."
	e.R.RuleText = "E7 table agreement; E2 gates and for-all loops; instruction-order and store-provenance rules for the location bookkeeping"

	// (a) section names
	names := sectionNames(e)
	if lm := e.fn("bundle.loadMetadata"); lm != nil {
		arms := switchConsts(lm, tSos+"[rangeidx].Name")
		e.tableEqual("section-names:writer-vs-reader-switch", e.P.Pos(lm.Pos()), names, arms, "names returned by the section types", "arms of loadMetadata's switch")
		var known []string
		if in := e.fn("bundle.init"); in != nil {
			set := map[string]bool{}
			for _, b := range in.Blocks {
				for _, i2 := range b.Instrs {
					if mu, ok := i2.(*ssa.MapUpdate); ok && strings.Contains(prov.Of(mu.Map), "makemap(map[string]struct{})") {
						if k, ok := mu.Key.(*ssa.Const); ok {
							set[strings.TrimPrefix(prov.Of(k), "const:")] = true
						}
					}
				}
			}
			known = sortedKeys(set)
		}
		e.tableEqual("section-names:writer-vs-knownSections", e.P.Pos(lm.Pos()), names, known, "names returned by the section types", "keys of knownSections")
	}
	wt := e.fn("bundle.(*Bundle).WriteTo")
	responsesLast(e, wt)

	// (b) nothing dropped
	forAllIterations(e, "FORALL", wt, "param:b.Exchanges", noCfg,
		gate.CallOK("W.each", "bundle.addExchange", "*indexSection", "call:bundle.newResponsesSection(len(param:b.Exchanges))", "param:b.Exchanges[rangeidx]"))
	rd := e.fn("bundle.Read")
	forAllIterations(e, "FORALL", rd, "call:bundle.loadMetadata(*)#0.requests", noCfg,
		gate.CallOK("D.each", "bundle.loadResponse", "call:bundle.loadMetadata(*)#0.requests[rangeidx]", "call:i*.ReadAll(param:r)#0"))
	forAllIterations(e, "FORALL", rd, "call:bundle.loadMetadata(*)#0.requests", noCfg,
		gate.Gate{Key: "D.keep", Desc: "the loaded exchange is appended", Instr: collects("bundle.Exchange")})
	e.requireStore("RESULT", rd, "alloc:bundle.Exchange.Request", "call:bundle.loadMetadata(*)#0.requests[rangeidx].Request", "the request (URL) of the index entry whose location was loaded")
	e.requireStore("RESULT", rd, "alloc:bundle.Exchange.Response", "call:bundle.loadResponse(call:bundle.loadMetadata(*)#0.requests[rangeidx],*)#0", "the response loaded from that entry's location")

	// (c) location bookkeeping
	locationBookkeeping(e)
	ax := e.fn("bundle.addExchange")
	tAdd := "call:(*bundle.responsesSection).addResponse(param:rs,param:e.Response)"
	e.requireGates("GATE", ax, gate.Outcome{Kind: gate.ErrNil, Idx: 0}, noCfg,
		gate.CallOK("X.response", "(*bundle.responsesSection).addResponse", "param:rs", "param:e.Response"),
		gate.CallOK("X.index", "(*bundle.indexSection).addExchange", "param:is", "param:e", tAdd+"#0", tAdd+"#1"))
	ix := e.fn("bundle.(*indexSection).addExchange")
	e.requireStore("RESULT", ix, "alloc:bundle.indexEntry.Offset", "conv(param:offset)", "the offset parameter")
	e.requireStore("RESULT", ix, "alloc:bundle.indexEntry.Length", "conv(param:length)", "the length parameter")
	e.requireStore("RESULT", ix, "alloc:bundle.indexEntry.Request", "param:e.Request", "the request of the same exchange")
	e.requireStore("RESULT", ix, "param:is.es", "append(param:is.es,alloc:[1]*bundle.indexEntry)", "the entry list extended by this entry")
	// the index builder sees the Variants / Variant-Key values exactly as the stored header has them:
	// all field lines, joined by the same normalizeHeaderValues that EncodeHeader applies
	e.requireStore("RESULT", ix, "alloc:bundle.indexEntry.Variants", "call:bundle.normalizeHeaderValues(param:e.Response.Header[call:http.CanonicalHeaderKey(const:\"variants\")])", "all Variants field lines, comma-joined as in the stored header")
	e.requireStore("RESULT", ix, "alloc:bundle.indexEntry.VariantKey", "call:bundle.normalizeHeaderValues(param:e.Response.Header[call:http.CanonicalHeaderKey(const:\"variant-key\")])", "all Variant-Key field lines, comma-joined as in the stored header")

	// (d) variants
	ek := e.fn("bundle.entriesInPossibleKeyOrder")
	ko := gate.Outcome{Kind: gate.ErrNil, Idx: 1}
	tVar := "call:bundle.parseVariants(param:es[const:0].Variants)#0"
	e.requireGates("GATE", ek, ko, noCfg,
		gate.Cmp("K.has-variants", "param:es[const:0].Variants", token.NEQ, `const:""`),
		gate.CallOK("K.parse", "bundle.parseVariants", "param:es[const:0].Variants"),
		gate.CallOK("K.count", "(bundle.Variants).numberOfPossibleKeys", tVar),
	)
	forAllIterations(e, "FORALL", ek, "param:es", noCfg, gate.Cmp("K.same-variants", "param:es[rangeidx].Variants", token.EQL, "param:es[const:0].Variants"))
	forAllIterations(e, "FORALL", ek, "param:es", noCfg, gate.CallOK("K.key-parse", "bundle.parseListOfStringLists", "param:es[rangeidx].VariantKey"))
	tIdx := "call:(bundle.Variants).indexInPossibleKeys(" + tVar + ",call:bundle.parseListOfStringLists(param:es[rangeidx].VariantKey)#0[rangeidx])"
	forAllIterations(e, "FORALL", ek, "call:bundle.parseListOfStringLists(param:es[rangeidx].VariantKey)#0", noCfg, gate.Cmp("K.covered", tIdx, token.NEQ, "const:-1"))
	forAllIterations(e, "FORALL", ek, "call:bundle.parseListOfStringLists(param:es[rangeidx].VariantKey)#0", noCfg, gate.Cmp("K.slot-free", tSlots+"[*]", token.EQL, "const:nil"))
	forAllIterations(e, "FORALL", ek, tSlots, noCfg, gate.Cmp("K.no-empty-slot", tSlots+"[rangeidx]", token.NEQ, "const:nil"))
	e.requireResult("RESULT", ek, ko, 0, tSlots, "the slot table filled above")
	e.requireStore("RESULT", ek, tSlots+"[*]", "param:es[rangeidx]", "the entry whose key maps to the slot")
	nk := e.fn("bundle.(Variants).numberOfPossibleKeys")
	forAllIterations(e, "FORALL", nk, "param:v", noCfg, gate.Cmp("N.axis-nonempty", "len(param:v[rangeidx])", token.GTR, "const:1"))
	forAllIterations(e, "FORALL", nk, "param:v", noCfg, gate.Cmp("N.cap", "(phi(const:1|↺) * (len(param:v[rangeidx]) - const:1))", token.LEQ, "const:10000"))

	// (e) b2: one resource per URL; b1: variants go through entriesInPossibleKeyOrder
	fz := e.fn("bundle.(*indexSection).Finalize")
	fo := gate.Outcome{Kind: gate.ErrNil, Idx: 0}
	tGroup := "*rangeval(makemap(map[string][]*bundle.indexEntry))*"
	forAllIterationsAtNth(e, "FORALL", fz, "makemap(map[string][]*bundle.indexEntry)", 1, "b2-emit-loop", bundleVersion("b2"),
		gate.Cmp("F.b2-single", "len("+tGroup+")", token.LEQ, "const:1"))
	forAllIterationsAtNth(e, "FORALL", fz, "makemap(map[string][]*bundle.indexEntry)", 0, "b1-emit-loop", bundleVersion("b1"),
		either("F.b1-ordered", "a single entry, or entriesInPossibleKeyOrder ok",
			gate.Cmp("", "len("+tGroup+")", token.LEQ, "const:1"),
			gate.CallOK("", "bundle.entriesInPossibleKeyOrder", tGroup)))
	_ = fo

	// (f) header maps: lower-cased names, comma-joined values, reader refuses upper case
	eh := e.fn("bundle.(Response).EncodeHeader")
	e.requireGates("COVER", eh, gate.Outcome{Kind: gate.ErrNil, Idx: 1}, noCfg,
		closureEntry("H.status", "(*cbor.Encoder).EncodeByteString", "param:valueE", "conv(call:strconv.Itoa(free:r.Status))"),
		gate.CallOK("H.map", "(*cbor.Encoder).EncodeMap", "call:cbor.NewEncoder(local:b)", ""))
	forAllIterations(e, "FORALL", eh, "param:r.Header", noCfg,
		gate.Gate{Key: "H.each", Desc: "an entry with the lower-cased name and comma-joined values is appended for every header",
			Instr: func(in ssa.Instruction) bool {
				c, ok := in.(*ssa.Call)
				return ok && prov.CalleeName(&c.Call) == "builtin:append" && appendCarriesHeaderEntry(c)
			}})
	dh := e.fn("bundle.decodeCborHeaders")
	countedLoop(e, "FORALL", dh, "call:(*cbor.Decoder).DecodeMapHeader(param:dec)#0",
		gate.Cmp("H.lower", "call:strings.ToLower(conv(call:(*cbor.Decoder).DecodeByteString(param:dec)#0))", token.EQL, "conv(call:(*cbor.Decoder).DecodeByteString(param:dec)#0)"))
	if w, r := e.fn("bundle.newSignaturesSection"), e.fn("bundle.parseSignaturesSection"); w != nil && r != nil {
		e.tableEqual("vouched-subset-keys", e.P.Pos(r.Pos()),
			constCallArgs(w, "(*cbor.Encoder).EncodeTextString", 1),
			switchConsts(r, "call:(*cbor.Decoder).DecodeTextString(*)#0"),
			"keys written by newSignaturesSection", "keys recognised by parseSignaturesSection")
	}
	// collected per-exchange / per-signature objects are fresh in every iteration
	loopAlias(e, "ALIAS", e.fns("bundle.Read", "bundle.(*Bundle).WriteTo")...)
	// one index / response record per exchange: no value flows from one URL's iteration into the next
	iterationsIndependent(e, "ITER", e.fns("bundle.Read", "bundle.(*Bundle).WriteTo")...)
	e.R.Floor("ITER", 10)
	e.R.Floor("ALIAS", 3)
	e.R.Floor("TABLE", 3)
	e.R.Floor("FORALL", 14)
	e.R.Floor("RESULT", 8)
	e.R.Floor("GATE", 5)
}

// responsesLast: the section list WriteTo writes (the list handed to
// writeSectionOffsets) ends with the responses section: followed back through
// merges, through append (whose last element decides) and through the result
// of a helper the rule tables do not know.
func responsesLast(e *Env, wt *ssa.Function) {
	if wt == nil {
		return
	}
	key := "bundle.(*Bundle).WriteTo:responses-last"
	var list ssa.Value
	var at ssa.Instruction
	for _, b := range wt.Blocks {
		for _, in := range b.Instrs {
			if c, isCall := in.(*ssa.Call); isCall && prov.CalleeName(&c.Call) == "bundle.writeSectionOffsets" && len(c.Call.Args) > 1 {
				list, at = c.Call.Args[1], in
			}
		}
	}
	if list == nil {
		e.R.Undecided("ORDER", key, e.P.Pos(wt.Pos()), "no call of writeSectionOffsets found: cannot identify the section list that is written")
		return
	}
	if endsWithResponses(e, list, 0, map[ssa.Value]bool{}) {
		e.R.OK("ORDER", key, e.P.InstrPos(at), "the list that is written is, on every path, the result of an append whose last element is the responses section")
		return
	}
	e.R.Fail("ORDER", key, e.P.Pos(wt.Pos()), "the responses section is not appended last to the list that is written")
}

// elemsInOrder: the elements of a variadic/literal backing array, by index.
func elemsInOrder(v ssa.Value) []ssa.Value {
	sl, ok := v.(*ssa.Slice)
	if !ok {
		return nil
	}
	al, ok := sl.X.(*ssa.Alloc)
	if !ok || al.Referrers() == nil {
		return nil
	}
	byIdx := map[int64]ssa.Value{}
	for _, ref := range *al.Referrers() {
		ia, ok := ref.(*ssa.IndexAddr)
		if !ok || ia.Referrers() == nil {
			continue
		}
		k, ok := ia.Index.(*ssa.Const)
		if !ok {
			return nil
		}
		for _, r2 := range *ia.Referrers() {
			if st, ok := r2.(*ssa.Store); ok && st.Addr == ia {
				byIdx[k.Int64()] = st.Val
			}
		}
	}
	var out []ssa.Value
	for i := int64(0); i < int64(len(byIdx)); i++ {
		x, ok := byIdx[i]
		if !ok {
			return nil
		}
		out = append(out, x)
	}
	return out
}

func endsWithResponses(e *Env, v ssa.Value, depth int, seen map[ssa.Value]bool) bool {
	if depth > 6 || seen[v] {
		return false
	}
	seen[v] = true
	switch x := v.(type) {
	case *ssa.Phi:
		for _, ed := range x.Edges {
			if !endsWithResponses(e, ed, depth+1, seen) {
				return false
			}
		}
		return len(x.Edges) > 0
	case *ssa.Call:
		if prov.CalleeName(&x.Call) == "builtin:append" && len(x.Call.Args) == 2 {
			el := elemsInOrder(x.Call.Args[1])
			return len(el) > 0 && strings.Contains(prov.Of(el[len(el)-1]), "call:bundle.newResponsesSection(")
		}
	case *ssa.Extract:
		c, ok := x.Tuple.(*ssa.Call)
		if !ok || x.Index != 0 {
			return false
		}
		h := c.Call.StaticCallee()
		if h == nil || h.Blocks == nil || !e.P.InModule(h) || prov.KnownFunction(h) || len(c.Call.Args) != len(h.Params) {
			return false
		}
		prov.PushSubst(h, &c.Call)
		defer prov.PopSubst()
		n := 0
		for _, b := range h.Blocks {
			r, ok := b.Instrs[len(b.Instrs)-1].(*ssa.Return)
			if !ok || len(r.Results) == 0 {
				continue
			}
			// a return of the nil list belongs to a failing path
			if k, ok := r.Results[0].(*ssa.Const); ok && k.IsNil() && len(r.Results) == 2 {
				if ek, isConst := r.Results[1].(*ssa.Const); !isConst || !ek.IsNil() {
					continue
				}
			}
			n++
			if !endsWithResponses(e, r.Results[0], depth+1, seen) {
				return false
			}
		}
		return n > 0
	}
	return false
}

// locationBookkeeping: rule (c) in addResponse.
func locationBookkeeping(e *Env) {
	ar := e.fn("bundle.(*responsesSection).addResponse")
	if ar == nil {
		return
	}
	key := "bundle.(*responsesSection).addResponse:offset-length"
	var lens []*ssa.Call
	var writes []ssa.Instruction
	for _, b := range ar.Blocks {
		for _, in := range b.Instrs {
			c, ok := in.(*ssa.Call)
			if !ok {
				continue
			}
			n := prov.CalleeName(&c.Call)
			if n == "(*bytes.Buffer).Len" && prov.Of(c.Call.Args[0]) == "param:rs.buf" {
				lens = append(lens, c)
			}
			if strings.HasPrefix(n, "(*cbor.Encoder).Encode") && prov.Of(c.Call.Args[0]) == "call:cbor.NewEncoder(param:rs.buf)" {
				writes = append(writes, c)
			}
		}
	}
	if len(lens) != 2 || len(writes) < 3 {
		e.R.Undecided("ORDER", key, e.P.Pos(ar.Pos()), "expected two buf.Len() calls around at least three encoder writes")
		return
	}
	first, second := lens[0], lens[1]
	if before(second, first) {
		first, second = second, first
	}
	ok := true
	for _, w := range writes {
		if !before(first, w) || !before(w, second) {
			ok = false
		}
	}
	ctx := gate.New(e.P, e.P.VTA())
	for _, r := range ctx.SuccessReturns(ar, gate.Outcome{Kind: gate.ErrNil, Idx: 2}) {
		if r.Results[0] != ssa.Value(first) {
			ok = false
		}
		bo, isSub := r.Results[1].(*ssa.BinOp)
		if !isSub || bo.Op != token.SUB || bo.X != ssa.Value(second) || bo.Y != ssa.Value(first) {
			ok = false
		}
	}
	if ok {
		e.R.OK("ORDER", key, e.P.InstrPos(first), "offset = buffer length before the response's writes, length = length after them minus offset")
	} else {
		e.R.Fail("ORDER", key, e.P.Pos(ar.Pos()), "the (offset, length) returned do not delimit exactly the bytes written for this response")
	}
	e.requireGates("COVER", ar, gate.Outcome{Kind: gate.ErrNil, Idx: 2}, noCfg,
		gate.CallOK("A.headers-encoded", "(bundle.Response).EncodeHeader", "param:r"),
		gate.CallOK("A.array2", "(*cbor.Encoder).EncodeArrayHeader", "call:cbor.NewEncoder(param:rs.buf)", "const:2"),
		gate.CallOK("A.headers", "(*cbor.Encoder).EncodeByteString", "call:cbor.NewEncoder(param:rs.buf)", "call:(bundle.Response).EncodeHeader(param:r)#0"),
		gate.CallOK("A.body", "(*cbor.Encoder).EncodeByteString", "call:cbor.NewEncoder(param:rs.buf)", "param:r.Body"))
}

// forAllIterationsAtNth applies the for-all rule to the n-th (0-based) range
// loop over overPat in source order.
func forAllIterationsAtNth(e *Env, rule string, fn *ssa.Function, overPat string, n int, label string, cfg gcfg, g gate.Gate) {
	if fn == nil {
		return
	}
	loops := loopsOver(fn, overPat)
	sort.Slice(loops, func(i, j int) bool { return firstPos(loops[i][0]) < firstPos(loops[j][0]) })
	if n >= len(loops) {
		e.R.Undecided(rule, load.FuncName(fn)+":forall("+label+"):"+g.Key, e.P.Pos(fn.Pos()), "range loop not found")
		return
	}
	forAllIterationsAt(e, rule, fn, loops[n], label, cfg, g)
}

// sliceElems: the provenance of the values stored into the elements of the
// literal array behind a slice value (a variadic argument list).
func sliceElems(v ssa.Value) []string {
	sl, ok := v.(*ssa.Slice)
	if !ok {
		return nil
	}
	al, ok := sl.X.(*ssa.Alloc)
	if !ok {
		return nil
	}
	var out []string
	for _, ref := range *al.Referrers() {
		if ia, ok := ref.(*ssa.IndexAddr); ok {
			for _, r2 := range *ia.Referrers() {
				if st, ok := r2.(*ssa.Store); ok && st.Addr == ia {
					out = append(out, prov.Of(st.Val))
				}
			}
		}
	}
	return out
}
