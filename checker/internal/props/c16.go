package props

import (
	"strconv"
	"fmt"
	"go/token"
	"strings"

	"golang.org/x/tools/go/ssa"

	"wpverif/internal/gate"
	"wpverif/internal/load"
	"wpverif/internal/prov"
)

func init() { register("C16", checkC16) }

// calleesMatching: names of the static callees of fn (and closures) whose name has the prefix.
func calleesMatching(fn *ssa.Function, prefix string) []string {
	set := map[string]bool{}
	for _, f := range withAnon(fn) {
		for _, b := range f.Blocks {
			for _, in := range b.Instrs {
				if c, ok := in.(ssa.CallInstruction); ok {
					if n := prov.CalleeName(c.Common()); strings.HasPrefix(n, prefix) {
						set[n] = true
					}
					// a class function handed to a scanning helper as a value
					// (p.getWhile(isKeyChar)) is used just the same
					for ai, a := range c.Common().Args {
						if f, ok := a.(*ssa.Function); ok {
							if n := prov.FuncString(f); strings.HasPrefix(n, prefix) && appliedToBytes(c.Common(), ai) {
								set[n] = true
							}
						}
					}
				}
			}
		}
	}
	return sortedKeys(set)
}

// ifaceTypesReturned: dynamic types wrapped into the interface result idx of fn.
func ifaceTypesReturned(e *Env, fn *ssa.Function, idx int, depth int) []string {
	set := map[string]bool{}
	var walk func(v ssa.Value, d int)
	walk = func(v ssa.Value, d int) {
		if d > 4 {
			return
		}
		switch x := v.(type) {
		case *ssa.MakeInterface:
			set[shortT(x.X.Type())] = true
		case *ssa.Phi:
			for _, ed := range x.Edges {
				walk(ed, d+1)
			}
		case *ssa.Const:
		case *ssa.Extract:
			if c, ok := x.Tuple.(*ssa.Call); ok {
				if sc := c.Call.StaticCallee(); sc != nil && sc.Blocks != nil {
					for _, t := range ifaceTypesReturned(e, sc, x.Index, depth+1) {
						set[t] = true
					}
				}
			}
		}
	}
	for _, b := range fn.Blocks {
		if r, ok := b.Instrs[len(b.Instrs)-1].(*ssa.Return); ok && idx < len(r.Results) {
			walk(r.Results[idx], 0)
		}
	}
	return sortedKeys(set)
}

func checkC16(e *Env) {
	e.R.Explanation = "Decided (structural necessary conditions of C16): (a) both exported parsers succeed only if, after the final skip of optional whitespace, the input is empty (trailing-garbage gate), and a parameter is stored only after the duplicate test; (b) writer validation: the label must be a valid token, every key a valid key, strings printable ASCII, tokens valid, unknown item types and empty (inner) lists refused; (c) parser and validator of keys use the same character-class functions (isLCAlpha, isKeyChar) and those of tokens likewise (isAlpha, isTokenChar); (d) the dynamic item types parseItem produces = the cases of serializeItem's type switch, the types extractSignatureFields asserts are among them, and the values the exchange signer stores have those types; (e) parameters are emitted from a key slice that is sorted before use (E4). " +
		"Not decided: grammar equivalence with draft-09, that serialize and parse are inverse, uniqueness of the output beyond sorted parameters."
	e.R.RuleText = "E2 gates and dominating-gate rule; E7 agreement of type sets and callee sets; E4 on the writer"
	pkg := "signedexchange/structuredheader."
	o1 := gate.Outcome{Kind: gate.ErrNil, Idx: 1}
	for _, p := range []struct{ fn, inner string }{
		{pkg + "ParseListOfLists", "(*structuredheader.parser).parseListOfLists"},
		{pkg + "ParseParameterisedList", "(*structuredheader.parser).parseParameterisedList"},
	} {
		fn := e.fn(p.fn)
		e.requireGates("GATE", fn, o1, noCfg,
			gate.CallOK("P.parse", p.inner, "alloc:structuredheader.parser"),
			gate.CallBool("P.no-trailing", "(*structuredheader.parser).isEmpty", true, "alloc:structuredheader.parser"))
		e.requireResult("RESULT", fn, o1, 0, "call:"+p.inner+"(alloc:structuredheader.parser)#0", "the parsed value")
		// the emptiness test comes after the last whitespace skip
		if fn != nil {
			// in the parser entry point itself, or in a helper the rule tables do
			// not know that it calls (p.expectEnd())
			cands := []*ssa.Function{fn}
			for _, b := range fn.Blocks {
				for _, in := range b.Instrs {
					if c, ok := in.(*ssa.Call); ok {
						if h := c.Call.StaticCallee(); h != nil && h.Blocks != nil && e.P.InModule(h) && !prov.KnownFunction(h) {
							cands = append(cands, h)
						}
					}
				}
			}
			var lastOWS, empty ssa.Instruction
			for _, g := range cands {
				var o, m ssa.Instruction
				for _, b := range g.Blocks {
					for _, in := range b.Instrs {
						if c, ok := in.(*ssa.Call); ok {
							switch prov.CalleeName(&c.Call) {
							case "(*structuredheader.parser).discardLeadingOWS":
								o = in
							case "(*structuredheader.parser).isEmpty":
								m = in
							}
						}
					}
				}
				if o != nil && m != nil {
					lastOWS, empty = o, m
				}
			}
			key := p.fn + ":ows-before-empty-test"
			if lastOWS != nil && empty != nil && before(lastOWS, empty) {
				e.R.OK("ORDER", key, e.P.InstrPos(empty), "trailing optional whitespace is skipped before the emptiness test")
			} else {
				e.R.Fail("ORDER", key, e.P.Pos(fn.Pos()), "the trailing-garbage test does not follow the final whitespace skip")
			}
		}
	}
	ppi := e.fn(pkg + "(*parser).parseParameterisedIdentifier")
	nMU := e.gatesBefore("GATE", ppi, noCfg, "parameters[name]=value", func(in ssa.Instruction) bool {
		_, ok := in.(*ssa.MapUpdate)
		return ok
	}, gate.BoolVal("P.no-duplicate-parameter", "ok:makemap(structuredheader.Parameters)[call:(*structuredheader.parser).parseKey(param:p)#0]", false),
		gate.CallOK("P.key", "(*structuredheader.parser).parseKey", "param:p"))
	if nMU != 1 {
		e.R.Fail("GATE", pkg+"(*parser).parseParameterisedIdentifier:one-store", "-", "expected exactly one store into the parameter map")
	}

	// a String keeps only printable ASCII (%x20-7E), or an escaped '"' / '\\': the
	// class the serializer accepts (strings with other bytes are refused there)
	if ps := e.fn(pkg + "(*parser).parseString"); ps != nil {
		tC := "call:(*structuredheader.parser).getChar(param:p)"
		n := e.gatesBefore("GATE", ps, noCfg, "keep-char", func(in ssa.Instruction) bool {
			c, ok := in.(*ssa.Call)
			if !ok {
				return false
			}
			switch prov.CalleeName(&c.Call) {
			case "(*strings.Builder).WriteByte", "(*bytes.Buffer).WriteByte":
				return true
			case "builtin:append":
				for _, el := range appendedElems(c) {
					if strings.Contains(prov.Of(el), tC) {
						return true
					}
				}
			}
			return false
		},
			either("P.string-lo", "c >= 0x20 (or an escaped quote or backslash)",
				gate.Cmp("", tC, token.GEQ, "const:32"), gate.Cmp("", tC, token.EQL, "const:34"), gate.Cmp("", tC, token.EQL, "const:92")),
			either("P.string-hi", "c <= 0x7e (or an escaped quote or backslash)",
				gate.Cmp("", tC, token.LEQ, "const:126"), gate.Cmp("", tC, token.EQL, "const:34"), gate.Cmp("", tC, token.EQL, "const:92")))
		if n == 0 {
			e.R.Undecided("GATE", pkg+"(*parser).parseString:keep-char", e.P.Pos(ps.Pos()), "cannot find where parseString keeps a character")
		}
	}

	// optional whitespace is SP / HTAB, at the front only
	e.requireStore("RESULT", e.fn(pkg+"(*parser).discardLeadingOWS"), "param:p.input", `call:strings.TrimLeft(param:p.input,const:" \t")`, "the input with leading SP/HTAB removed (nothing else is optional whitespace)")

	// (b) writer validation
	o0 := gate.Outcome{Kind: gate.ErrNil, Idx: 0}
	ser := e.fn(pkg + "(*ParameterisedIdentifier).serialize")
	e.requireGates("GATE", ser, o0, noCfg, gate.CallBool("W.label", "structuredheader.isValidToken", true, "param:pi.Label"))
	tKeys := "phi(append(↺,alloc:[1]*)|*)" // the key slice accumulated from the map, whatever its element type and initial value
	forAllIterations(e, "FORALL", ser, tKeys, noCfg, gate.CallBool("W.key", "structuredheader.isValidKey", true, tKeys+"[rangeidx]"))
	forAllIterations(e, "FORALL", ser, tKeys, noCfg,
		either("W.value", "value absent, or serializeItem ok",
			gate.Cmp("", "param:pi.Params["+tKeys+"[rangeidx]]", token.EQL, "const:nil"),
			gate.CallOK("", "structuredheader.serializeItem", "param:pi.Params["+tKeys+"[rangeidx]]", "param:out")))
	e.gatesBefore("GATE", ser, noCfg, "emit-key", func(in ssa.Instruction) bool {
		c, ok := in.(*ssa.Call)
		return ok && prov.CalleeName(&c.Call) == "(*strings.Builder).WriteString" && prov.Match("{"+tKeys+"[rangeidx]|conv("+tKeys+"[rangeidx])}", prov.Of(c.Call.Args[1]))
	}, gate.CallInstr("W.sorted", "sort.Strings || sort.Slice || sort.SliceStable || slices.Sort", tKeys))
	si := e.fn(pkg + "serializeItem")
	e.gatesBefore("GATE", si, noCfg, "emit-token", func(in ssa.Instruction) bool {
		c, ok := in.(*ssa.Call)
		return ok && prov.CalleeName(&c.Call) == "(*strings.Builder).WriteString" && strings.Contains(prov.Of(c.Call.Args[1]), "structuredheader.Token")
	}, gate.CallBool("W.token", "structuredheader.isValidToken", true, "assert:structuredheader.Token(param:i)"))
	e.gatesBefore("GATE", si, noCfg, "emit-string", func(in ssa.Instruction) bool {
		c, ok := in.(*ssa.Call)
		return ok && prov.CalleeName(&c.Call) == "(*strings.Builder).WriteString" && strings.Contains(prov.Of(c.Call.Args[1]), "strconv.Quote")
	}, gate.BoolVal("W.string-scanned", "assert:string(param:i)#0", false))
	// inside the scan: a character outside ' '..'~' is an error
	if si != nil {
		lo, hi := false, false
		for _, b := range si.Blocks {
			if ifi, ok := b.Instrs[len(b.Instrs)-1].(*ssa.If); ok {
				for _, f := range gate.EdgeFacts(ifi.Cond, true) {
					if f.Kind == gate.FCmp && strings.HasSuffix(prov.Of(f.X), "#2") {
						tb := b.Succs[0]
						isErr := false
						for x := tb; x != nil; {
							if r, ok := x.Instrs[len(x.Instrs)-1].(*ssa.Return); ok {
								isErr = !strings.HasPrefix(prov.Of(r.Results[0]), "const:nil")
								break
							}
							if len(x.Succs) == 1 {
								x = x.Succs[0]
							} else {
								break
							}
						}
						if f.Op == token.LSS && prov.Of(f.Y) == "const:32" && isErr {
							lo = true
						}
						if f.Op == token.GTR && prov.Of(f.Y) == "const:126" && isErr {
							hi = true
						}
					}
				}
			}
		}
		if lo && hi {
			e.R.OK("GATE", pkg+"serializeItem:printable", e.P.Pos(si.Pos()), "characters below ' ' or above '~' make the string unserialisable")
		} else {
			e.R.Fail("GATE", pkg+"serializeItem:printable", e.P.Pos(si.Pos()), "the printable-ASCII check of strings (c < ' ' || c > '~' => error) is missing or altered")
		}
	}
	e.requireGates("GATE", e.fn(pkg+"(ListOfLists).serialize"), o0, noCfg, gate.Cmp("W.nonempty", "len(param:ll)", token.NEQ, "const:0"))
	forAllIterations(e, "FORALL", e.fn(pkg+"(ListOfLists).serialize"), "param:ll", noCfg, gate.Cmp("W.inner-nonempty", "len(param:ll[rangeidx])", token.NEQ, "const:0"))
	e.requireGates("GATE", e.fn(pkg+"(ParameterisedList).serialize"), o0, noCfg, gate.Cmp("W.nonempty", "len(param:pl)", token.NEQ, "const:0"))

	// (c) shared character classes
	classPairs := []struct{ a, b, what string }{
		{pkg + "(*parser).parseKey", pkg + "isValidKey", "keys"},
		{pkg + "(*parser).parseToken", pkg + "isValidToken", "tokens"},
	}
	for _, cp := range classPairs {
		fa, fb := e.fn(cp.a), e.fn(cp.b)
		if fa == nil || fb == nil {
			continue
		}
		e.tableEqual("char-classes:"+cp.what, e.P.Pos(fb.Pos()), calleesMatching(fa, "structuredheader.is"), calleesMatching(fb, "structuredheader.is"),
			"class functions used by the parser", "class functions used by the validator")
	}
	// (d) item type sets
	pi := e.fn(pkg + "(*parser).parseItem")
	if pi != nil && si != nil {
		produced := ifaceTypesReturned(e, pi, 0, 0)
		var cases []string
		for _, b := range si.Blocks {
			for _, in := range b.Instrs {
				if ta, ok := in.(*ssa.TypeAssert); ok && ta.CommaOk {
					cases = append(cases, shortT(ta.AssertedType))
				}
			}
		}
		e.tableEqual("item-types:parser-vs-writer", e.P.Pos(si.Pos()), produced, dedup(cases), "dynamic types produced by parseItem", "cases of serializeItem")
		if ex := e.fn("signedexchange.extractSignatureFields"); ex != nil {
			var asserted []string
			for _, b := range ex.Blocks {
				for _, in := range b.Instrs {
					if ta, ok := in.(*ssa.TypeAssert); ok {
						asserted = append(asserted, shortT(ta.AssertedType))
					}
				}
			}
			subsetOf(e, "item-types:verifier-asserts", e.P.Pos(ex.Pos()), dedup(asserted), produced, "types asserted by extractSignatureFields", "types parseItem can produce")
		}
		if sg := e.fn("signedexchange.(*Signer).signatureHeaderValue"); sg != nil {
			var stored []string
			fs := []*ssa.Function{sg}
			for _, c := range unknownHelperCalls(e, sg) {
				fs = append(fs, c.Call.StaticCallee())
			}
			for _, f := range fs {
				for _, b := range f.Blocks {
					for _, in := range b.Instrs {
						if mu, ok := in.(*ssa.MapUpdate); ok {
							if mi, ok := mu.Value.(*ssa.MakeInterface); ok {
								stored = append(stored, shortT(mi.X.Type()))
							}
						}
					}
				}
			}
			subsetOf(e, "item-types:signer-stores", e.P.Pos(sg.Pos()), dedup(stored), dedup(cases), "types the signer stores as parameters", "cases of serializeItem")
		}
	}
	// (e) map order in the writer
	scope := e.P.Reachable(e.P.VTA(), e.fns(pkg+"(ListOfLists).String", pkg+"(ParameterisedList).String", pkg+"(*ParameterisedIdentifier).String")...)
	mapOrderN(e, scope, 1)
	iterationsIndependent(e, "ITER", e.fns("signedexchange.(*Signer).signatureHeaderValue", "signedexchange.extractSignatureFields")...)
	e.R.Floor("ITER", 6)
	e.R.Floor("GATE", 13)
	e.R.Floor("FORALL", 3)
	charClassTable(e)
	e.R.Floor("TABLE", 5)
	e.R.Floor("CLASS", 5)
	_ = load.FuncName
}

func dedup(xs []string) []string {
	set := map[string]bool{}
	for _, x := range xs {
		set[x] = true
	}
	return sortedKeys(set)
}

func subsetOf(e *Env, key, pos string, sub, super []string, whatSub, whatSuper string) {
	in := map[string]bool{}
	for _, s := range super {
		in[s] = true
	}
	var extra []string
	for _, s := range sub {
		if !in[s] {
			extra = append(extra, s)
		}
	}
	if len(extra) == 0 && len(sub) > 0 {
		e.R.OK("TABLE", key, pos, whatSub+" {"+strings.Join(sub, ",")+"} are among "+whatSuper+" {"+strings.Join(super, ",")+"}")
	} else {
		e.R.Fail("TABLE", key, pos, whatSub+" are not all among "+whatSuper, "not covered: "+strings.Join(extra, ","), whatSub+": "+strings.Join(sub, ","), whatSuper+": "+strings.Join(super, ","))
	}
}

// appliedToBytes: the module function that receives a class function as its
// argument ai calls it only on bytes taken from a string or byte slice (an
// element load), never on a value narrowed from a wider type (byte(r) for a
// rune r accepts code points whose low byte happens to be allowed).
func appliedToBytes(c *ssa.CallCommon, ai int) bool {
	h := c.StaticCallee()
	if h == nil || h.Blocks == nil {
		return false
	}
	if c.IsInvoke() || ai >= len(h.Params) {
		return false
	}
	p := h.Params[ai]
	calls := 0
	for _, b := range h.Blocks {
		for _, in := range b.Instrs {
			ci, ok := in.(ssa.CallInstruction)
			if !ok || ci.Common().Value != ssa.Value(p) {
				continue
			}
			calls++
			if len(ci.Common().Args) != 1 {
				return false
			}
			switch x := ci.Common().Args[0].(type) {
			case *ssa.UnOp: // load of an element address
				if _, ok := x.X.(*ssa.IndexAddr); !ok {
					return false
				}
			case *ssa.Index, *ssa.Lookup: // s[i] of a string
			default:
				return false
			}
		}
	}
	// the function value must not travel anywhere else
	if refs := p.Referrers(); refs != nil {
		for _, r := range *refs {
			if ci, ok := r.(ssa.CallInstruction); !ok || ci.Common().Value != ssa.Value(p) {
				if _, isDbg := r.(*ssa.DebugRef); !isDbg {
					return false
				}
			}
		}
	}
	return calls > 0
}

// charClassTable: each character-class function is folded for every one of
// the 256 byte values and compared with the sets of the grammar
// (draft-ietf-httpbis-header-structure: lcalpha, ALPHA, DIGIT, key and token
// characters).  A class function that cannot be folded (a table filled at
// init time, seed C16-g: a 128-entry table indexed with c&0x7f, so 0xE1
// counted as 'a') is reported as undecided.
func charClassTable(e *Env) {
	lc := func(c int) bool { return c >= 'a' && c <= 'z' }
	al := func(c int) bool { return lc(c) || (c >= 'A' && c <= 'Z') }
	dg := func(c int) bool { return c >= '0' && c <= '9' }
	in := func(c int, set string) bool {
		for _, x := range []byte(set) {
			if int(x) == c {
				return true
			}
		}
		return false
	}
	classes := []struct {
		fn   string
		want func(int) bool
	}{
		{"signedexchange/structuredheader.isDigit", dg},
		{"signedexchange/structuredheader.isLCAlpha", lc},
		{"signedexchange/structuredheader.isAlpha", al},
		{"signedexchange/structuredheader.isKeyChar", func(c int) bool { return lc(c) || dg(c) || in(c, "_-") }},
		{"signedexchange/structuredheader.isTokenChar", func(c int) bool { return al(c) || dg(c) || in(c, "_-.:%*/") }},
	}
	for _, cl := range classes {
		fn := e.fn(cl.fn)
		if fn == nil || len(fn.Params) != 1 {
			continue
		}
		pat := "param:" + fn.Params[0].Name()
		var wrong, undecided []string
		for c := 0; c < 256; c++ {
			ctx := gate.New(e.P, e.P.VTA(), assumeVal(pat, strconv.Itoa(c)).assume...)
			ex := ctx.ExitsUnder(fn, 0)
			want := "const:false"
			if cl.want(c) {
				want = "const:true"
			}
			switch {
			case len(ex) == 1 && ex[0] == want:
			case len(ex) == 1 && (ex[0] == "const:true" || ex[0] == "const:false"):
				wrong = append(wrong, fmt.Sprintf("0x%02x", c))
			default:
				undecided = append(undecided, fmt.Sprintf("0x%02x", c))
			}
		}
		key := "char-class:" + cl.fn[strings.LastIndex(cl.fn, ".")+1:]
		switch {
		case len(wrong) > 0:
			e.R.Fail("CLASS", key, e.P.Pos(fn.Pos()), "the class differs from the grammar for bytes "+strings.Join(firstN(wrong, 12), " "))
		case len(undecided) > 0:
			e.R.Undecided("CLASS", key, e.P.Pos(fn.Pos()), fmt.Sprintf("the class function cannot be folded to a constant for %d byte values (e.g. %s): its verdict depends on something other than comparisons of its argument", len(undecided), strings.Join(firstN(undecided, 6), " ")))
		default:
			e.R.OK("CLASS", key, e.P.Pos(fn.Pos()), "agrees with the grammar's set for all 256 byte values")
		}
	}
}

func firstN(s []string, n int) []string {
	if len(s) > n {
		return s[:n]
	}
	return s
}
