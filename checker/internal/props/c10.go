package props

import (
	"fmt"
	"go/token"
	"strings"
	"wpverif/internal/prov"

	"golang.org/x/tools/go/ssa"

	"wpverif/internal/gate"
	"wpverif/internal/load"
	"wpverif/internal/untrusted"
)

func init() { register("C10", checkC10) }

// parserEntries: the entry points that parse externally supplied data (C10).
var parserEntries = []string{
	"bundle.Read",
	"signedexchange.ReadExchange",
	"signedexchange.ReadExchangePrologue",
	"signedexchange.(*Exchange).Verify",
	"signedexchange/certurl.ReadCertChain",
	"bundle/signature.NewVerifier",
	"bundle/signature.(*Verifier).VerifyExchange",
	"signedexchange/structuredheader.ParseListOfLists",
	"signedexchange/structuredheader.ParseParameterisedList",
	"signedexchange/mice.(Encoding).NewDecoder",
	"signedexchange/mice.(*decoder).Read",
	"internal/cbor.(*Decoder).ReadByte",
	"internal/cbor.(*Decoder).DecodeUint",
	"internal/cbor.(*Decoder).DecodeArrayHeader",
	"internal/cbor.(*Decoder).DecodeMapHeader",
	"internal/cbor.(*Decoder).DecodeTextString",
	"internal/cbor.(*Decoder).DecodeByteString",
	"integrityblock.WebBundleHasIntegrityBlock",
	"integrityblock.ObtainIntegrityBlock",
}

func parserScope(e *Env, entries []string) map[*ssa.Function]bool {
	roots := e.fns(entries...)
	scope := e.P.Reachable(e.P.VTA(), roots...)
	for f := range scope {
		if !e.P.IsLibrary(f) {
			delete(scope, f)
		}
	}
	return scope
}

func inDeterministic(fn *ssa.Function) bool {
	return strings.HasSuffix(fn.Prog.Fset.Position(fn.Pos()).Filename, "internal/cbor/deterministic.go") ||
		strings.HasSuffix(fn.Prog.Fset.Position(fn.Pos()).Filename, "internal/cbor/addinfo.go")
}

// runUntrusted runs E6 over scope and records its obligations; only functions
// accepted by keep are reported.
func runUntrusted(e *Env, scope map[*ssa.Function]bool, keep func(*ssa.Function) bool, skipBounds func(*ssa.Function) bool) *untrusted.Analysis {
	a := untrusted.New(e.P, e.P.VTA(), scope)
	a.Propagate()
	in := map[*ssa.Function]bool{}
	for f := range scope {
		if keep == nil || keep(f) {
			in[f] = true
		}
	}
	for _, o := range a.Obligations(in, skipBounds) {
		if !o.OK {
			if ex, ok := u1Exemptions[o.Key]; ok {
				if good, why := ex(e); good {
					e.R.OK(o.Rule, o.Key, o.Pos, "site-specific exemption: "+why)
					continue
				}
			}
		}
		if o.OK {
			e.R.OK(o.Rule, o.Key, o.Pos, o.How)
		} else {
			e.R.Fail(o.Rule, o.Key, o.Pos, o.How, o.Detail...)
		}
	}
	e.R.Counts["tainted_values"] = len(a.T)
	e.R.Counts["tainted_fields"] = len(a.FT)
	src := 0
	for _, n := range a.Source {
		src += n
	}
	e.R.Counts["integer_source_sites"] = src
	return a
}

// u1Exemptions: one symbol, one reason each; the reason is itself re-checked.
var u1Exemptions = map[string]func(e *Env) (bool, string){
	// int64(binary.BigEndian.Uint64(trailer)): the only consumer is
	// ObtainIntegrityBlock, which rejects size-len < 0 and size-len != 0, so a
	// wrapped (negative) or oversized length can only lead to an error return.
	"integrityblock.readWebBundlePayloadLength:conv(uint64->int64)#1": func(e *Env) (bool, string) {
		ob, ok := e.P.FuncOK("integrityblock.ObtainIntegrityBlock")
		if !ok {
			return false, ""
		}
		ctx := gate.New(e.P, e.P.VTA())
		out := gate.Outcome{Kind: gate.ErrNil, Idx: 2}
		for _, g := range []gate.Gate{
			gate.Cmp("O.nonneg", tSizeDif, token.GEQ, "const:0"),
			either("O.zero", "fileSize - declaredLength == 0 (or, being non-negative, <= 0)", gate.Cmp("", tSizeDif, token.EQL, "const:0"), gate.Cmp("", tSizeDif, token.LEQ, "const:0")),
		} {
			if ok, _ := ctx.Established(ob, out, g); !ok {
				return false, ""
			}
		}
		// and nobody else calls it
		rw, _ := e.P.FuncOK("integrityblock.readWebBundlePayloadLength")
		for _, caller := range e.P.Funcs {
			if caller == ob || caller.Synthetic != "" {
				continue
			}
			for _, b := range caller.Blocks {
				for _, in := range b.Instrs {
					if ci, ok := in.(ssa.CallInstruction); ok && ci.Common().StaticCallee() == rw {
						return false, ""
					}
				}
			}
		}
		return true, "the converted trailer length is consumed only by ObtainIntegrityBlock, whose success exits are cut by (size-len >= 0) and (size-len == 0): a wrapped value can only produce an error"
	},
}

func checkC10(e *Env) {
	e.R.Explanation = "Decided (structural necessary conditions of C10): in every library function reachable from the parser entry points, integers declared by the input (CBOR heads, big-endian length fields and everything computed from them, tracked through struct fields, parameters, closures and returns) never reach, without a dominating range check or an intrinsic bound: a conversion to a signed type (U1), a slice/index bound (U3), an allocation size or count argument (U4), or a loop bound whose iterations do not consume input (U5); allocation sizes are <= 2^16, <= 2^24 or the caller's constant record-size limit; no explicit panic is reachable from a parser unless it is the default arm of an exhaustive switch over a closed enumeration, is guarded by its callers, or is one of two documented cannot-happen sites (E8); recursion among parser functions is reported. " +
		"Not decided: index expressions on un-tainted indices (p.input[0] after isEmpty()), nil dereferences, stdlib internals (x509, asn1, url), termination of loops not bounded by an input integer."
	e.R.RuleText = "E6: forward taint from integer sources (decodeTypedUint, binary.BigEndian.UintN, binary.Read targets, Decode3BytesUint) to fixpoint; per hazard use an upper bound from dominating branch facts, intrinsic type ranges, len()/io.ReadFull contracts, the idiom x<=L && y<=L-x => x+y<=L, struct invariants; E8: explicit panic reachability with closed-enumeration discharge"
	// COPYLEN: no tolerant copy of input bytes (shared rule, copylen.go)
	copiesAreExact(e, 1, "")
	scope := parserScope(e, parserEntries)
	// TAILIDX: bounds counted from the end are guarded (tailidx.go)
	tailBoundsGuarded(e, 1, scope)
	e.R.Counts["scope_functions"] = len(scope)
	runUntrusted(e, scope, func(f *ssa.Function) bool { return !inDeterministic(f) }, nil)
	searchIndexGuarded(e, scope)
	e.R.Floor("U1", 2)
	e.R.Floor("U3", 5)
	e.R.Floor("U4", 5)
	e.R.Floor("U5", 10)
	panicReachability(e, scope)
	recursionInScope(e, scope)
	_ = load.FuncName
}

// searchIndexGuarded (rule SEARCHIDX): the result of sort.Search / SearchInts /
// SearchStrings is an insertion point in [0, len]; used as an index it must be
// tested "< len(slice)" first, otherwise a key larger than every element
// (a status code above the last table entry) panics.
func searchIndexGuarded(e *Env, scope map[*ssa.Function]bool) {
	for _, fn := range e.P.Funcs {
		if !e.P.IsLibrary(fn) {
			continue
		}
		n := 0
		for _, b := range fn.Blocks {
			for _, in := range b.Instrs {
				var idx, base ssa.Value
				switch x := in.(type) {
				case *ssa.IndexAddr:
					idx, base = x.Index, x.X
				case *ssa.Index:
					idx, base = x.Index, x.X
				default:
					continue
				}
				c, ok := idx.(*ssa.Call)
				if !ok || !strings.HasPrefix(prov.CalleeName(&c.Call), "sort.Search") {
					continue
				}
				n++
				key := fmt.Sprintf("%s:index-by-%s#%d", load.FuncName(fn), prov.CalleeName(&c.Call), n)
				tBase := prov.Of(base)
				if dominatedBy(b, func(f gate.Fact) bool {
					if f.Kind != gate.FCmp {
						return false
					}
					if f.Op == token.LSS && f.X == idx && prov.Of(f.Y) == "len("+tBase+")" {
						return true
					}
					return f.Op == token.GTR && f.Y == idx && prov.Of(f.X) == "len("+tBase+")"
				}) {
					e.R.OK("SEARCHIDX", key, e.P.InstrPos(in), "the insertion point is tested to be below len before it is used as an index")
				} else {
					e.R.Fail("SEARCHIDX", key, e.P.InstrPos(in), "the result of "+prov.CalleeName(&c.Call)+" indexes "+short(tBase)+" without a dominating '< len' test: a key above the last element panics")
				}
			}
		}
	}
}
