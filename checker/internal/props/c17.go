package props

import (
	"go/token"
	"go/types"
	"strconv"
	"strings"

	"golang.org/x/tools/go/ssa"

	"wpverif/internal/gate"
	"wpverif/internal/load"
	"wpverif/internal/prov"
)

func init() { register("C17", checkC17) }

func checkC17(e *Env) {
	e.R.Explanation = "Decided (structural necessary conditions of C17): Validate() is a gate of CertChain.Write (before the first destination write) and of ReadCertChain; Validate itself requires a non-empty chain and, specialised on i==0 / i!=0, OCSPResponse != nil / == nil for every element with no early exit; ReadCertChain requires count >= 2, magic string equality, every element decoded through DecodeAugmentedCertificateFrom (which requires a 'cert' key and a successful x509.ParseCertificate) and appended; the written array header is len+1 and every element is encoded; the key sets {cert, ocsp, sct} of writer and reader agree; SerializeSCTList: per-element and total <= 0xffff gates dominate the two uint16 narrowings, the total counts len+2 per element, every element is written with its length; every destination write in Write/EncodeTo propagates its error (E3). " +
		"Not decided: DER equality after the round trip, X.509 parsing."
	e.R.RuleText = "E2 must-pass-through; specialised CFG on the loop index; for-all loop rule; E7 key-table agreement; narrowing-conversion guard rule; E3 on the cert-chain writers"
	// ERRUSE: no error of a data-fallible module call is lost on the way (shared rule, erruse.go)
	moduleErrorsConsumed(e, erruseEntries, 1, "signedexchange/certurl.")

	w := e.fn("signedexchange/certurl.(CertChain).Write")
	o := gate.Outcome{Kind: gate.ErrNil, Idx: 0}
	e.requireGates("GATE", w, o, noCfg,
		gate.CallOK("W.validate", "(certurl.CertChain).Validate", "param:certChain"),
		gate.CallOK("W.header", "(*cbor.Encoder).EncodeArrayHeader", "call:cbor.NewEncoder(param:w)", "(len(param:certChain) + const:1)"),
		gate.CallOK("W.magic", "(*cbor.Encoder).EncodeTextString", "call:cbor.NewEncoder(param:w)", `const:"📜⛓"`),
	)
	forAllIterations(e, "FORALL", w, "param:certChain", noCfg,
		gate.CallOK("W.each", "(*certurl.AugmentedCertificate).EncodeTo", "param:certChain[rangeidx]", "call:cbor.NewEncoder(param:w)"))
	// Validate precedes the first destination write
	e.dominatedByGates("GATE", w, noCfg, "(*cbor.Encoder).EncodeArrayHeader", nil,
		gate.CallOK("W.validate", "(certurl.CertChain).Validate", "param:certChain"))

	v := e.fn("signedexchange/certurl.(CertChain).Validate")
	e.requireGates("GATE", v, o, noCfg, gate.Cmp("V.nonempty", "len(param:certChain)", token.NEQ, "const:0"))
	first := gcfg{name: "i==0", assume: []gate.Assumption{{ProvPat: "rangeidx", Value: "0"}}}
	rest := gcfg{name: "i!=0", assume: []gate.Assumption{{ProvPat: "rangeidx", Value: "0", NotEqual: true}}}
	// element 0 has an OCSP response: tested inside the loop at i == 0, or on certChain[0] directly
	firstOf(e,
		func(e *Env) {
			forAllIterations(e, "FORALL", v, "param:certChain", first,
				gate.Cmp("V.first-has-ocsp", "param:certChain[rangeidx].OCSPResponse", token.NEQ, "const:nil"))
		},
		func(e *Env) {
			e.requireGates("FORALL", v, o, noCfg, gate.Cmp("V.first-has-ocsp", "param:certChain[const:0].OCSPResponse", token.NEQ, "const:nil"))
		})
	// every later element has none (the loop may start at 0 or at 1)
	forAllIterationsFrom(e, "FORALL", v, "param:certChain", rest,
		gate.Cmp("V.rest-no-ocsp", "param:certChain[rangeidx].OCSPResponse", token.EQL, "const:nil"), 1)

	r := e.fn("signedexchange/certurl.ReadCertChain")
	ro := gate.Outcome{Kind: gate.ErrNil, Idx: 1}
	tDec := "call:cbor.NewDecoder(param:r)"
	e.requireGates("GATE", r, ro, noCfg,
		gate.CallOK("R.header", "(*cbor.Decoder).DecodeArrayHeader", tDec),
		gate.Cmp("R.count", "call:(*cbor.Decoder).DecodeArrayHeader("+tDec+")#0", token.GEQ, "const:2"),
		gate.CallOK("R.magic.ok", "(*cbor.Decoder).DecodeTextString", tDec),
		gate.Cmp("R.magic", "call:(*cbor.Decoder).DecodeTextString("+tDec+")#0", token.EQL, `const:"📜⛓"`),
		gate.CallOK("R.validate", "(certurl.CertChain).Validate", "*append(*"),
	)
	// every declared element is decoded and appended (loop i = 1 .. n-1)
	countedLoop(e, "FORALL", r, "call:(*cbor.Decoder).DecodeArrayHeader("+tDec+")#0",
		gate.CallOK("R.each", "certurl.DecodeAugmentedCertificateFrom", tDec),
		gate.Gate{Key: "R.keep", Desc: "the decoded certificate is appended to the chain", Instr: collects("AugmentedCertificate")})
	d := e.fn("signedexchange/certurl.DecodeAugmentedCertificateFrom")
	e.requireGates("GATE", d, ro, noCfg,
		gate.CallOK("D.header", "(*cbor.Decoder).DecodeMapHeader", "param:dec"),
		gate.Cmp("D.has-cert", "alloc:certurl.AugmentedCertificate.Cert", token.NEQ, "const:nil"),
	)
	e.requireStore("RESULT", d, "alloc:certurl.AugmentedCertificate.Cert", "call:x509.ParseCertificate(call:(*cbor.Decoder).DecodeByteString(param:dec)#0)#0", "the parsed 'cert' value")
	e.requireStore("RESULT", d, "alloc:certurl.AugmentedCertificate.OCSPResponse", "call:(*cbor.Decoder).DecodeByteString(param:dec)#0", "the 'ocsp' value bytes")
	e.requireStore("RESULT", d, "alloc:certurl.AugmentedCertificate.SCTList", "call:(*cbor.Decoder).DecodeByteString(param:dec)#0", "the 'sct' value bytes")
	// once a parsed certificate was stored, success requires ParseCertificate's error to have been nil
	e.afterStore("GATE", d, "alloc:certurl.AugmentedCertificate.Cert", ro,
		gate.CallOK("D.parse", "x509.ParseCertificate", "call:(*cbor.Decoder).DecodeByteString(param:dec)#0"))

	enc := e.fn("signedexchange/certurl.(*AugmentedCertificate).EncodeTo")
	e.requireGates("COVER", enc, o, noCfg,
		closureEntry("E.cert", "(*cbor.Encoder).EncodeByteString", "param:valueE", "{free:|param:}ac.Cert.Raw"),
		either("E.ocsp", "ocsp entry reaches EncodeMap (or OCSPResponse is nil)",
			closureEntry("", "(*cbor.Encoder).EncodeByteString", "param:valueE", "{free:|param:}ac.OCSPResponse"), gate.Cmp("", "param:ac.OCSPResponse", token.EQL, "const:nil")),
		either("E.sct", "sct entry reaches EncodeMap (or SCTList is nil)",
			closureEntry("", "(*cbor.Encoder).EncodeByteString", "param:valueE", "{free:|param:}ac.SCTList"), gate.Cmp("", "param:ac.SCTList", token.EQL, "const:nil")),
		gate.CallOK("E.map", "(*cbor.Encoder).EncodeMap", "param:enc", ""),
	)
	if enc != nil && d != nil {
		e.tableEqual("augmented-certificate-keys", e.P.Pos(d.Pos()),
			constCallArgs(enc, "(*cbor.Encoder).EncodeTextString", 1),
			switchConsts(d, "call:(*cbor.Decoder).DecodeTextString(param:dec)#0"),
			"keys written by EncodeTo", "keys recognised by DecodeAugmentedCertificateFrom")
	}

	// SCT list
	s := e.fn("signedexchange/certurl.SerializeSCTList")
	so := gate.Outcome{Kind: gate.ErrNil, Idx: 1}
	tTotal := "phi((↺ + (len(param:scts[rangeidx]) + const:2))|const:0)"
	e.requireGates("GATE", s, so, noCfg, gate.Cmp("S.total", tTotal, token.LEQ, "const:65535"))
	loops := loopsOver(s, "param:scts")
	if len(loops) != 2 {
		e.R.Undecided("FORALL", load.FuncName(s)+":loops", e.P.Pos(s.Pos()), "expected the size loop and the emission loop over scts")
	} else {
		forAllIterationsAt(e, "FORALL", s, loops[0], "size-loop", noCfg, gate.Cmp("S.each", "len(param:scts[rangeidx])", token.LEQ, "const:65535"))
	}
	// the list is built in a bytes.Buffer, or by appending to a byte slice
	firstOf(e,
		func(e *Env) {
			e.requireGates("GATE", s, so, noCfg,
				gate.CallOK("S.total.write", "binary.Write", "local:buf", "global:binary.BigEndian", "conv("+tTotal+")"))
			if len(loops) == 2 {
				forAllIterationsAt(e, "FORALL", s, loops[1], "emit-loop", noCfg, gate.CallOK("S.each.len", "binary.Write", "local:buf", "global:binary.BigEndian", "conv(len(param:scts[rangeidx]))"))
				forAllIterationsAt(e, "FORALL", s, loops[1], "emit-loop", noCfg, gate.CallOK("S.each.body", "(*bytes.Buffer).Write", "local:buf", "param:scts[rangeidx]"))
			}
			e.requireResult("RESULT", s, so, 0, "call:(*bytes.Buffer).Bytes(local:buf)", "the serialized list")
		},
		func(e *Env) {
			tHead := "call:(binary.bigEndian).AppendUint16(global:binary.BigEndian,make([]byte,const:0*),conv(" + tTotal + "))"
			e.requireResult("RESULT", s, so, 0,
				"phi(append(call:(binary.bigEndian).AppendUint16(global:binary.BigEndian,↺,conv(len(param:scts[rangeidx]))),param:scts[rangeidx])|"+tHead+")",
				"the 2-byte total followed, for every element in order, by its 2-byte length and its bytes (append chain)")
			if len(loops) == 2 {
				forAllIterationsAt(e, "FORALL", s, loops[1], "emit-loop", noCfg, gate.CallInstr("S.each.body", "builtin:append", "*", "param:scts[rangeidx]"))
				forAllIterationsAt(e, "FORALL", s, loops[1], "emit-loop", noCfg, gate.CallInstr("S.each.len", "(binary.bigEndian).AppendUint16", "*", "*", "conv(len(param:scts[rangeidx]))"))
			}
			e.requireGates("GATE", s, so, noCfg, gate.CallInstr("S.total.write", "(binary.bigEndian).AppendUint16", "*", "make([]byte,const:0*)", "conv("+tTotal+")"))
		})
	var sizeLoop *ssa.BasicBlock
	if len(loops) == 2 {
		sizeLoop = loops[0][0]
	}
	narrowingsGuarded(e, s, 65535, sizeLoop, "len(param:scts[rangeidx])")

	iterationsIndependent(e, "ITER", e.fns("signedexchange/certurl.ReadCertChain", "signedexchange/certurl.NewCertChain", "signedexchange/certurl.(CertChain).Write", "signedexchange/certurl.(CertChain).Validate")...)
	loopAlias(e, "ALIAS", e.fns("signedexchange/certurl.ReadCertChain", "signedexchange/certurl.NewCertChain")...)
	e.R.Floor("ALIAS", 1)
	e.R.Floor("GATE", 14)
	e.R.Floor("FORALL", 8)
	e.R.Floor("COVER", 4)

	// E3 on the writers
	a, scope := destAnalysis(e, []string{"signedexchange/certurl.(CertChain).Write", "signedexchange/certurl.(*AugmentedCertificate).EncodeTo"})
	in := map[*ssa.Function]bool{}
	for f := range scope {
		if strings.HasPrefix(load.FuncName(f), "signedexchange/certurl.") {
			in[f] = true
		}
	}
	for _, st := range a.Sites(in) {
		if st.OK {
			e.R.OK("ERRPROP", st.Key, st.Pos, st.How)
		} else {
			e.R.Fail("ERRPROP", st.Key, st.Pos, "destination write whose error is not propagated: "+st.How)
		}
	}
	e.R.Floor("ERRPROP", 4)
}

// narrowingsGuarded: every conversion to uint16 in fn (of a non-constant) is
// dominated by a branch asserting operand <= max.
//
// A narrowing of forallTerm is also accepted when forallHeader is the header of
// a completed for-all loop over the same unmodified collection that checks
// forallTerm <= max for every element (obligation S.each), and that loop
// dominates the conversion without containing it.
func narrowingsGuarded(e *Env, fn *ssa.Function, max int64, forallHeader *ssa.BasicBlock, forallTerm string) {
	if fn == nil {
		return
	}
	n := 0
	for _, b := range fn.Blocks {
		for _, in := range b.Instrs {
			cv, ok := in.(*ssa.Convert)
			if !ok {
				continue
			}
			bt, ok := cv.Type().Underlying().(*types.Basic)
			if !ok || bt.Kind() != types.Uint16 {
				continue
			}
			n++
			term := prov.Of(cv.X)
			key := load.FuncName(fn) + ":narrow-uint16#" + itoa(n)
			if dominatedBy(b, func(f gate.Fact) bool {
				if f.Kind != gate.FCmp {
					return false
				}
				if k, ok := f.Y.(*ssa.Const); ok && k.Value != nil && prov.Of(f.X) == term {
					c := k.Int64()
					return (f.Op == token.LEQ && c <= max) || (f.Op == token.LSS && c <= max+1)
				}
				return false
			}) {
				e.R.OK("NARROW", key, e.P.InstrPos(in), "uint16("+short(term)+") is dominated by a guard <= "+itoa(int(max)))
			} else if forallHeader != nil && term == forallTerm && forallHeader.Dominates(b) && !forallHeader.Succs[0].Dominates(b) {
				e.R.OK("NARROW", key, e.P.InstrPos(in), "uint16("+short(term)+"): every element passed the <= "+itoa(int(max))+" check in the preceding for-all loop over the same (unmodified) parameter slice")
			} else {
				e.R.Fail("NARROW", key, e.P.InstrPos(in), "narrowing conversion uint16("+short(term)+") is not dominated by a range check: lengths above 65535 are silently truncated")
			}
		}
	}
	e.R.Floor("NARROW", 2)
}

func itoa(i int) string { return strconv.Itoa(i) }
