package props

// c15Obligations: the validated-buffer typestate of the MI decoder (E9);
// shared by C15 and, as inherited obligations, by C01 and C06.
func c15Obligations(e *Env, why string) {
	// implemented in typestate.go once E9 is built
	micetypestate(e, why)
}
