package props

import (
	"strings"

	"golang.org/x/tools/go/ssa"

	"wpverif/internal/load"
)

func init() { register("C15", checkC15) }

// c15Obligations: the validated-buffer typestate of the MI decoder (E9);
// shared by C15 and, as inherited obligations, by C01 and C06.
func c15Obligations(e *Env, why string) {
	micetypestate(e, why)
}

func checkC15(e *Env) {
	e.R.Explanation = "Decided (structural necessary conditions of C15), over all paths of NewDecoder, Read and readNextRecord: (1) only those three functions store to the decoder's out/nextProof/recordBuf fields, the record buffer is filled only by io.ReadFull in readNextRecord and the chained proof only by the copy there; (2) every store of a non-nil value to out is dominated by the pass-edge of validateRecord(record, nextProof, flag) on a record that contains the stored slice, or advances out within itself; (3) nextProof is overwritten only with the tail of a record validated with flag=false and set to nil only after a validation with flag=true; (4) the short-read path validates with last=true (and refuses a read that ends inside the proof), the full-read path with last=false, the draft-02 empty final record with last=true; validateRecord hashes 0x00/0x01 exactly as Encode does; (5) Read copies to the caller only from out and reports io.EOF only when out is empty and nextProof is nil; (6) NewDecoder: the record-size gate (non-zero, <= the caller's limit) dominates the allocation, the empty-stream shortcut is taken only on EOF, for non-draft-02, after validateRecord(nil, proof, true); (7) validateRecord returns bytes.Equal(SHA-256(record||flag), proof) and the parsed proof is 32 bytes of the expected algorithm; (8) the buffer is refilled only when out is empty; plus E6 on the allocation size. " +
		"Not decided: collision resistance; callers that read the underlying stream concurrently."
	e.R.RuleText = "E9 typestate: who-writes rule on the decoder's fields and buffers; store/call sites dominated by validateRecord pass-edges (must-pass-through to an instruction); E7 flag table by CFG folding; E6 U4 on the record buffer"
	c15Obligations(e, "own property")
	scope := parserScope(e, []string{"signedexchange/mice.(Encoding).NewDecoder", "signedexchange/mice.(*decoder).Read"})
	runUntrusted(e, scope, func(f *ssa.Function) bool { return strings.HasPrefix(load.FuncName(f), "signedexchange/mice.") }, nil)
	e.R.Floor("U4", 1)
	e.R.Floor("U3", 2)
	e.R.Floor("TABLE", 4)
}
