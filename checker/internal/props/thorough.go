package props

func runThorough(e *Env, f checkFn) {}
