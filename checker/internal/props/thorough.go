package props

import (
	"encoding/json"
	"fmt"
	"os"
	"os/exec"
	"path/filepath"
	"sort"
	"strings"
	"sync"

	"golang.org/x/tools/go/ssa"

	"wpverif/internal/load"
)

// runThorough adds, to the quick tier's obligations: (a) the same rules on a
// GOARCH=386 load (32-bit int changes which conversions and bounds are safe);
// (b) the same rules with every reachability scope computed on the coarser CHA
// call graph; (c) informational inventories; (d) the sensitivity self-test:
// every seeded breakage of this property must make the quick check fire.
func runThorough(e *Env, f checkFn) {
	base := len(e.R.Obls)
	tag := func(from int, cfg string) int {
		for _, o := range e.R.Obls[from:] {
			if o.Config == "" {
				o.Config = cfg
			} else {
				o.Config += " " + cfg
			}
		}
		return len(e.R.Obls)
	}
	saveFloors := e.R.Floors
	// (a) 386
	if p386, err := load.Load(e.Repo, "386"); err != nil {
		e.R.Undecided("LOAD", "load-GOARCH=386", "-", err.Error())
	} else {
		e2 := *e
		e2.P = p386
		e.R.Floors = map[string][2]int{}
		f(&e2)
		F0(&e2)
		base = tag(base, "GOARCH=386")
		e.R.Counts["functions_386"] = len(p386.Funcs)
	}
	// (b) CHA scopes
	e.P.UseCHA = true
	e.R.Floors = map[string][2]int{}
	f(e)
	e.P.UseCHA = false
	tag(base, "callgraph=CHA")
	e.R.Floors = saveFloors
	// (c) inventories
	if e.R.Prop == "C10" {
		implicitPanicInventory(e)
	}
	// (d) self-test
	selfTest(e)
}

// implicitPanicInventory counts the instructions that can panic implicitly in
// the parser scope (informational; the tainted ones are E6 obligations).
func implicitPanicInventory(e *Env) {
	scope := parserScope(e, parserEntries)
	inv := map[string]int{}
	for fn := range scope {
		for _, b := range fn.Blocks {
			for _, in := range b.Instrs {
				switch x := in.(type) {
				case *ssa.IndexAddr, *ssa.Index:
					inv["index"]++
				case *ssa.Slice:
					inv["slice"]++
				case *ssa.TypeAssert:
					if !x.CommaOk {
						inv["type assertion without comma-ok"]++
					}
				case *ssa.BinOp:
					if x.Op.String() == "/" || x.Op.String() == "%" {
						if _, isConst := x.Y.(*ssa.Const); !isConst {
							inv["division by a non-constant"]++
						}
					}
				case *ssa.MapUpdate:
					inv["map update"]++
				}
			}
		}
	}
	e.R.Extra["implicit_panic_inventory"] = inv
}

type mutant struct {
	ID     string   `json:"id"`
	Props  []string `json:"props"`
	Expect []string `json:"expect"`
	What   string   `json:"what"`
	Edits  []struct {
		File string `json:"file"`
		Old  string `json:"old"`
		New  string `json:"new"`
	} `json:"edits"`
	Patch string `json:"-"` // path of a unified diff (seeded by an independent agent)
	// Benign: a behaviour-preserving edit (mutants/benign/<id>.diff): the check must stay silent
	Benign bool `json:"-"`
}

func loadMutants(verif, prop string) []mutant {
	var out []mutant
	if b, err := os.ReadFile(filepath.Join(verif, "mutants", "mutants.json")); err == nil {
		var all []mutant
		if json.Unmarshal(b, &all) == nil {
			for _, m := range all {
				for _, p := range m.Props {
					if p == prop {
						out = append(out, m)
					}
				}
			}
		}
	}
	// seeded/<id>/meta.json {"property": "...", "detected_by": [...]} + patch.diff
	dirs, _ := filepath.Glob(filepath.Join(verif, "seeded", "*", "meta.json"))
	sort.Strings(dirs)
	for _, mj := range dirs {
		b, err := os.ReadFile(mj)
		if err != nil {
			continue
		}
		var meta struct {
			ID         string   `json:"id"`
			Property   string   `json:"property"`
			DetectedBy []string `json:"detected_by"`
			Expect     []string `json:"expect"`
		}
		if json.Unmarshal(b, &meta) != nil {
			continue
		}
		for _, p := range meta.DetectedBy {
			if p == prop {
				out = append(out, mutant{ID: "seeded-" + meta.ID, Props: []string{prop}, Expect: meta.Expect, Patch: filepath.Join(filepath.Dir(mj), "patch.diff")})
			}
		}
	}
	// behaviour-preserving edits: every property must stay silent on each
	bd, _ := filepath.Glob(filepath.Join(verif, "mutants", "benign", "*.diff"))
	sort.Strings(bd)
	for _, d := range bd {
		out = append(out, mutant{ID: "benign-" + strings.TrimSuffix(filepath.Base(d), ".diff"), Props: []string{prop}, Patch: d, Benign: true})
	}
	return out
}

func copyTree(src, dst string) error {
	return filepath.Walk(src, func(path string, info os.FileInfo, err error) error {
		if err != nil {
			return err
		}
		rel, _ := filepath.Rel(src, path)
		if rel == ".git" || strings.HasPrefix(rel, ".git"+string(filepath.Separator)) {
			if info.IsDir() {
				return filepath.SkipDir
			}
			return nil
		}
		target := filepath.Join(dst, rel)
		if info.IsDir() {
			return os.MkdirAll(target, 0o755)
		}
		if !info.Mode().IsRegular() {
			return nil
		}
		b, err := os.ReadFile(path)
		if err != nil {
			return err
		}
		return os.WriteFile(target, b, info.Mode())
	})
}

func goEnv() []string {
	return append(os.Environ(), "GOFLAGS=-mod=mod", "GOPROXY=off", "GOSUMDB=off", "GOTOOLCHAIN=local", "GOWORK=off")
}

// selfTest applies each breakage to a scratch copy of the current tree and
// requires the quick check to fire and to name the broken instance.
// scopeDirs: the source directories (packages) the rules of this property can
// depend on: the packages of every function reachable from the functions the
// rules anchored on.  Properties whose rules scan the whole module get nil
// (= everything).
func scopeDirs(e *Env) map[string]bool {
	switch e.R.Prop {
	case "C04", "C10", "C18", "C19", "C20":
		return nil
	}
	anchors := e.P.Looked()
	if len(anchors) == 0 {
		return nil
	}
	reach := e.P.Reachable(e.P.VTA(), anchors...)
	for _, a := range anchors {
		reach[a] = true
	}
	dirs := map[string]bool{}
	for fn := range reach {
		if !e.P.InModule(fn) || !fn.Pos().IsValid() {
			continue
		}
		f := strings.TrimPrefix(e.P.Fset.Position(fn.Pos()).Filename, e.P.RepoDir+"/")
		dirs[filepath.Dir(f)] = true
	}
	return dirs
}

// patchDirs: the directories of the files a unified diff touches.
func patchDirs(path string) []string {
	b, err := os.ReadFile(path)
	if err != nil {
		return nil
	}
	var out []string
	for _, l := range strings.Split(string(b), "\n") {
		if strings.HasPrefix(l, "+++ ") {
			f := strings.Fields(strings.TrimPrefix(l, "+++ "))
			if len(f) > 0 {
				name := strings.TrimPrefix(f[0], "b/")
				out = append(out, filepath.Dir(name))
			}
		}
	}
	return out
}

func selfTest(e *Env) {
	ms := loadMutants(e.Verif, e.R.Prop)
	// a behaviour-preserving edit outside every package this property's rules
	// can depend on cannot change the verdict: not replayed
	if dirs := scopeDirs(e); dirs != nil {
		var kept []mutant
		skipped := 0
		for _, m := range ms {
			if m.Benign {
				touches := false
				for _, d := range patchDirs(m.Patch) {
					if dirs[d] {
						touches = true
					}
				}
				if !touches {
					skipped++
					continue
				}
			}
			kept = append(kept, m)
		}
		ms = kept
		e.R.Counts["selftest_benign_out_of_scope"] = skipped
	}
	self, err := os.Executable()
	if err != nil || len(ms) == 0 {
		e.R.Extra["selftest"] = "no seeded breakages for this property"
		return
	}
	type res struct{ id, status, detail string }
	results := make([]res, len(ms))
	sem := make(chan struct{}, 8)
	var wg sync.WaitGroup
	for i, m := range ms {
		wg.Add(1)
		go func(i int, m mutant) {
			defer wg.Done()
			sem <- struct{}{}
			defer func() { <-sem }()
			tmp, err := os.MkdirTemp("", "wpverif-"+m.ID+"-")
			if err != nil {
				results[i] = res{m.ID, "SKIP", err.Error()}
				return
			}
			defer os.RemoveAll(tmp)
			scratch := filepath.Join(tmp, "repo")
			if err := copyTree(e.Repo, scratch); err != nil {
				results[i] = res{m.ID, "SKIP", err.Error()}
				return
			}
			if m.Patch != "" {
				c := exec.Command("patch", "-p1", "-s", "-i", m.Patch)
				c.Dir = scratch
				if out, err := c.CombinedOutput(); err != nil {
					results[i] = res{m.ID, "SKIP", "patch no longer applies: " + strings.TrimSpace(string(out))}
					return
				}
			}
			for _, ed := range m.Edits {
				p := filepath.Join(scratch, ed.File)
				b, err := os.ReadFile(p)
				if err != nil || !strings.Contains(string(b), ed.Old) {
					results[i] = res{m.ID, "SKIP", "edit no longer applies to " + ed.File}
					return
				}
				os.WriteFile(p, []byte(strings.Replace(string(b), ed.Old, ed.New, 1)), 0o644)
			}
			if !m.Benign { // (a benign edit that does not type-check any more shows up as a load failure of the check)
				bc := exec.Command("go", "build", "./...")
				bc.Dir = scratch
				bc.Env = goEnv()
				if out, err := bc.CombinedOutput(); err != nil {
					results[i] = res{m.ID, "SKIP", "mutant does not compile on the current tree: " + lastLine(string(out))}
					return
				}
			}
			vdir := filepath.Join(tmp, "verif")
			os.MkdirAll(vdir, 0o755)
			if kf, err := os.ReadFile(filepath.Join(e.Verif, "known_findings.txt")); err == nil {
				os.WriteFile(filepath.Join(vdir, "known_findings.txt"), kf, 0o644)
			}
			c := exec.Command(self, "-prop", e.R.Prop, "-repo", scratch, "-verif", vdir, "-tier", "quick")
			c.Env = goEnv()
			out, _ := c.CombinedOutput()
			code := c.ProcessState.ExitCode()
			fired := code == 1 && strings.Contains(string(out), "VIOLATION property="+e.R.Prop)
			named := true
			if len(m.Props) > 0 && m.Props[0] == e.R.Prop {
				for _, k := range m.Expect {
					if !strings.Contains(string(out), k) {
						named = false
					}
				}
			}
			if m.Benign {
				if code == 0 && !strings.Contains(string(out), "VIOLATION") {
					results[i] = res{m.ID, "SILENT", ""}
				} else {
					results[i] = res{m.ID, "FALSE-ALARM", "the check fired on a behaviour-preserving edit: " + firstViolation(string(out))}
				}
				return
			}
			switch {
			case !fired:
				results[i] = res{m.ID, "MISSED", fmt.Sprintf("the check stayed silent (exit %d)", code)}
			case !named:
				results[i] = res{m.ID, "WRONGKEY", "fired, but not on " + strings.Join(m.Expect, ",")}
			default:
				results[i] = res{m.ID, "DETECTED", ""}
			}
		}(i, m)
	}
	wg.Wait()
	var summary []string
	det, silent := 0, 0
	for _, r := range results {
		s := r.id + ": " + r.status
		if r.detail != "" {
			s += " (" + r.detail + ")"
		}
		summary = append(summary, s)
		switch r.status {
		case "DETECTED":
			det++
		case "SILENT":
			silent++
		case "MISSED", "WRONGKEY", "FALSE-ALARM":
			e.R.SelfTest = append(e.R.SelfTest, s)
		}
	}
	e.R.Extra["selftest"] = summary
	e.R.Counts["selftest_mutants"] = len(results)
	e.R.Counts["selftest_detected"] = det
	e.R.Counts["selftest_benign_silent"] = silent
}

func lastLine(s string) string {
	s = strings.TrimSpace(s)
	if i := strings.LastIndex(s, "\n"); i >= 0 {
		return s[i+1:]
	}
	return s
}

func firstViolation(out string) string {
	for _, l := range strings.Split(out, "\n") {
		if strings.HasPrefix(l, "VIOLATION rule") || strings.HasPrefix(l, "UNDECIDED") {
			if len(l) > 240 {
				l = l[:240]
			}
			return l
		}
	}
	return lastLine(out)
}
