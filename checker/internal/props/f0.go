package props

import (
	"go/types"
	"strings"

	"golang.org/x/tools/go/ssa"

	"wpverif/internal/load"
	"wpverif/internal/prov"
)

// F0 re-checks the code-base facts the path arguments rely on (DESIGN 2): no
// goroutines, channels, select, recover, unsafe or reflection in library
// packages; defer only for Close().  It runs after the property's rules and
// covers the library functions those rules depend on: everything reachable in
// the call graph from the functions the rules anchored on (plus their
// closures).  A failure there makes the check UNDECIDED; a defer in code no
// rule of this property looks at does not.
func F0(e *Env) {
	bad := 0
	nf := 0
	var scope map[*ssa.Function]bool
	if anchors := e.P.Looked(); len(anchors) > 0 {
		scope = e.P.Reachable(e.P.VTA(), anchors...)
		for _, a := range anchors {
			scope[a] = true
		}
		for changed := true; changed; {
			changed = false
			for _, fn := range e.P.Funcs {
				if !scope[fn] && fn.Parent() != nil && scope[fn.Parent()] {
					scope[fn] = true
					changed = true
				}
			}
		}
	}
	for _, fn := range e.P.Funcs {
		if !e.P.IsLibrary(fn) {
			continue
		}
		if scope != nil && !scope[fn] {
			continue
		}
		nf++
		for _, b := range fn.Blocks {
			for _, in := range b.Instrs {
				why := ""
				switch x := in.(type) {
				case *ssa.Go:
					why = "go statement"
				case *ssa.Select:
					why = "select"
				case *ssa.Send:
					why = "channel send"
				case *ssa.MakeChan:
					why = "channel"
				case *ssa.Defer:
					// a deferred call runs after the return values are fixed; it can
					// change what the caller sees only by assigning to named results
					// (or by recovering, banned below), so it is harmless to the path
					// arguments when the enclosing function has no named results.  The
					// effect rules (E3, E5) visit deferred calls like ordinary ones.
					n := prov.CalleeName(&x.Call)
					if !strings.HasSuffix(n, ".Close") && hasNamedResults(fn) {
						why = "defer of " + n + " in a function with named results"
					}
				case *ssa.Call:
					n := prov.CalleeName(&x.Call)
					if n == "builtin:recover" {
						why = "recover"
					}
					if strings.HasPrefix(n, "reflect.") || strings.HasPrefix(n, "(reflect.") {
						why = "reflection: " + n
					}
				case *ssa.Convert:
					if b, ok := x.Type().Underlying().(*types.Basic); ok && b.Kind() == types.UnsafePointer {
						why = "unsafe.Pointer conversion"
					}
					if b, ok := x.X.Type().Underlying().(*types.Basic); ok && b.Kind() == types.UnsafePointer {
						why = "unsafe.Pointer conversion"
					}
				}
				if why != "" {
					bad++
					e.R.Undecided("F0", load.FuncName(fn)+":"+why, e.P.InstrPos(in),
						"library code uses "+why+"; the path arguments of every engine assume it does not (DESIGN section 2)")
				}
			}
		}
	}
	e.R.Counts["library_functions_in_scope"] = nf
	if bad == 0 {
		e.R.OK("F0", "library-code-facts", "-", "no go/select/channel/recover/unsafe/reflect in library functions, defer only for Close or in functions without named results").NonTrivial = false
	}
}

func thoroughExtras(e *Env, f checkFn) {
	// filled in by thorough.go
	runThorough(e, f)
}

func hasNamedResults(fn *ssa.Function) bool {
	res := fn.Signature.Results()
	for i := 0; i < res.Len(); i++ {
		if n := res.At(i).Name(); n != "" && n != "_" {
			return true
		}
	}
	return false
}
