package props

import (
	"go/token"
	"strings"

	"golang.org/x/tools/go/ssa"

	"wpverif/internal/gate"
	"wpverif/internal/load"
	"wpverif/internal/prov"
)

func init() { register("C05", checkC05) }

const tSos = "call:bundle.decodeSectionLengthsCBOR(*)#0"

func inBundleDecoder(fn *ssa.Function) bool {
	return strings.HasSuffix(fn.Prog.Fset.Position(fn.Pos()).Filename, "go/bundle/decoder.go")
}

func checkC05(e *Env) {
	e.R.Explanation = "Decided (structural necessary conditions of C05): (a) every slice of the whole-file buffer with input-declared bounds (section contents in loadMetadata, response location in loadResponse) has local dominating guards lo <= hi <= len(bs) (len, not cap: spare capacity of ReadAll's buffer is out of bounds); (b) the sums/differences of declared offsets and lengths that feed those guards cannot wrap (subtraction idiom x <= L && y <= L-x), in loadMetadata and both index parsers; (c) the section cursor: on every back edge of the section loop the cursor is either advanced by the section's length or the iteration asserted so.Name == \"responses\" — unknown sections advance it; (d) gates: magic, section-length blob < 8192, duplicate section names refused, declared section count == table length, last section is \"responses\", URL fragments/credentials refused, first byte 0x82, ':status' present and the only pseudo header, status matches ^\\d\\d\\d$, no trailing bytes in a response, every index entry is loaded and kept; (e) the count-driven loops of the reader consume input in every iteration. " +
		"Not decided: agreement with an independent parser; wrap-freedom of the escaping running sums (FindSection, respSectionOffset+offset) — memory-safe after (a); ioutil.ReadAll."
	e.R.RuleText = "E6 (U2/U3/U5) restricted to bundle/decoder.go; E2 gates and for-all loops; cursor-phi rule on the section loop"
	scope := parserScope(e, []string{"bundle.Read"})
	runUntrusted(e, scope, inBundleDecoder, nil)
	// strings inside sections and responses are never shortened to what is left of their container
	stringsAreExact(e)
	e.R.Floor("U2", 5)
	e.R.Floor("U3", 2)
	e.R.Floor("U5", 7)

	lm := e.fn("bundle.loadMetadata")
	sectionCursor(e, lm)

	ok1 := gate.Outcome{Kind: gate.ErrNil, Idx: 1}
	e.requireGates("GATE", lm, ok1, noCfg,
		gate.CallOK("L.magic", "bundle/version.ParseMagicBytes", "call:bytes.NewBuffer(param:bs)"),
		gate.CallOK("L.lengths", "(*cbor.Decoder).DecodeByteString", "call:cbor.NewDecoder(call:bytes.NewBuffer(param:bs))"),
		gate.Cmp("L.lengths-size", "len(call:(*cbor.Decoder).DecodeByteString(*)#0)", token.LSS, "const:8192"),
		gate.CallOK("L.table", "bundle.decodeSectionLengthsCBOR", "call:(*cbor.Decoder).DecodeByteString(*)#0"),
		gate.CallOK("L.count", "(*cbor.Decoder).DecodeArrayHeader", "call:cbor.NewDecoder(call:bytes.NewBuffer(param:bs))"),
		gate.Cmp("L.count-matches", "call:(*cbor.Decoder).DecodeArrayHeader(*)#0", token.EQL, "conv(len("+tSos+"))"),
		gate.Cmp("L.nonempty", "len("+tSos+")", token.NEQ, "const:0"),
		gate.Cmp("L.last-is-responses", tSos+"[*].Name", token.EQL, `const:"responses"`),
	)
	// per known section: the section parser's error is honoured
	for _, s := range []struct{ key, callee string }{
		{"primary", "bundle.parsePrimarySection"}, {"manifest", "bundle.parseManifestSection"}, {"signatures", "bundle.parseSignaturesSection"},
	} {
		e.dominatedByGates("GATE", lm, noCfg, s.callee, nil,
			gate.Cmp("L.in-file.offset", "*", token.GTR, "phi(*"), // conv(len(bs)) > offset
			gate.Cmp("L.name."+s.key, tSos+"[rangeidx].Name", token.EQL, `const:"`+s.key+`"`))
	}
	dsl := e.fn("bundle.decodeSectionLengthsCBOR")
	countedLoop(e, "FORALL", dsl, "call:(*cbor.Decoder).DecodeArrayHeader(*)#0",
		gate.CallBool("T.no-duplicate", "", false).WithEdge(func(f gate.Fact) bool {
			return f.Kind == gate.FBool && !f.Val && strings.HasPrefix(prov.Of(f.V), "call:bundle.FindSection(") && strings.HasSuffix(prov.Of(f.V), "#2")
		}),
		gate.CallOK("T.name", "(*cbor.Decoder).DecodeTextString", "*"),
		gate.CallOK("T.length", "(*cbor.Decoder).DecodeUint", "*"))

	for _, name := range []string{"bundle.parseIndexSection", "bundle.parseIndexSectionWithVariants"} {
		fn := e.fn(name)
		countedLoop(e, "FORALL", fn, "call:(*cbor.Decoder).DecodeMapHeader(*)#0",
			gate.CallOK("I.url", "url.Parse", "call:(*cbor.Decoder).DecodeTextString(*)#0"),
			gate.Cmp("I.no-fragment", "call:url.Parse(*)#0.Fragment", token.EQL, `const:""`),
			gate.Cmp("I.no-credentials", "call:url.Parse(*)#0.User", token.EQL, "const:nil"),
		)
		// every recorded location passed the in-responses check
		e.dominatedByGates("GATE", fn, noCfg, "builtin:append", []string{"*", "alloc:[1]bundle.requestEntryWithOffset"},
			// through the range-checking closure, or with the two comparisons written inline
			either("I.in-responses.offset", "offset lies inside the responses section",
				gate.CallOK("", "bundle.parseIndexSection*$1", "call:(*cbor.Decoder).DecodeUint(*)#0", "call:(*cbor.Decoder).DecodeUint(*)#0"),
				gate.Cmp("", "call:(*cbor.Decoder).DecodeUint(*)#0", token.LEQ, `call:bundle.FindSection(param:sos,const:"responses")#0.Length`)),
			either("I.in-responses.length", "length fits behind the offset inside the responses section",
				gate.CallOK("", "bundle.parseIndexSection*$1", "call:(*cbor.Decoder).DecodeUint(*)#0", "call:(*cbor.Decoder).DecodeUint(*)#0"),
				gate.Cmp("", "call:(*cbor.Decoder).DecodeUint(*)#0", token.LEQ, `(call:bundle.FindSection(param:sos,const:"responses")#0.Length - call:(*cbor.Decoder).DecodeUint(*)#0)`)))
		// the range-checking closure bounds offset and length by the length of the
		// responses section itself (an absolute end position would admit entries
		// that lie behind the section)
		if cl, ok := e.P.FuncOK(load.FuncName(fn) + "$1"); ok {
			e.requireGates("GATE", cl, gate.Outcome{Kind: gate.ErrNil, Idx: 2}, noCfg,
				gate.Cmp("I.closure.offset", "param:offset", token.LEQ, "free:respso.Length"),
				gate.Cmp("I.closure.length", "param:length", token.LEQ, "(free:respso.Length - param:offset)"))
			e.requireResult("RESULT", cl, gate.Outcome{Kind: gate.ErrNil, Idx: 2}, 0, "(free:respSectionOffset + param:offset)", "the offset made absolute by the start of the responses section")
			e.requireResult("RESULT", cl, gate.Outcome{Kind: gate.ErrNil, Idx: 2}, 1, "param:length", "the length unchanged")
		}
		e.requireGates("GATE", fn, ok1, noCfg,
			gate.Cmp("I.responses-found", `call:bundle.FindSection(param:sos,const:"responses")#2`, token.EQL, "const:true").WithEdge(func(f gate.Fact) bool {
				return f.Kind == gate.FBool && f.Val && prov.Of(f.V) == `call:bundle.FindSection(param:sos,const:"responses")#2`
			}))
	}
	lr := e.fn("bundle.loadResponse")
	e.requireGates("GATE", lr, ok1, noCfg,
		gate.CallOK("R.first", "(*bytes.Buffer).ReadByte", "call:bytes.NewBuffer(slice(param:bs,param:req.Offset,(param:req.Offset + param:req.Length)))"),
		gate.Cmp("R.array2", "call:(*bytes.Buffer).ReadByte(*)#0", token.EQL, "const:130"),
		gate.CallOK("R.header-bytes", "(*cbor.Decoder).DecodeByteString", "call:cbor.NewDecoder(call:bytes.NewBuffer(slice(param:bs,*)))"),
		gate.CallOK("R.headers", "bundle.decodeCborHeaders", "call:cbor.NewDecoder(call:bytes.NewBuffer(call:(*cbor.Decoder).DecodeByteString(*)#0))"),
		gate.BoolVal("R.status-present", `ok:call:bundle.decodeCborHeaders(*)#1[const:":status"]`, true),
		gate.Cmp("R.only-pseudo", "len(call:bundle.decodeCborHeaders(*)#1)", token.EQL, "const:1"),
		gate.CallBool("R.status-3-digits", "(*regexp.Regexp).MatchString", true, "global:bundle.reStatus", `call:bundle.decodeCborHeaders(*)#1[const:":status"]`),
		gate.Cmp("R.no-trailing", "call:(*bytes.Buffer).Len(call:bytes.NewBuffer(slice(param:bs,*)))", token.EQL, "const:0"),
	)
	e.requireStore("RESULT", lr, "{local:res|alloc:bundle.Response}.Body", "call:(*cbor.Decoder).DecodeByteString(call:cbor.NewDecoder(call:bytes.NewBuffer(slice(param:bs,param:req.Offset,(param:req.Offset + param:req.Length)))))#0",
		"the byte string decoded from the in-bounds slice of the file buffer")
	rd := e.fn("bundle.Read")
	e.requireGates("GATE", rd, ok1, noCfg,
		either("D.readall", "ok(ReadAll(r))", gate.CallOK("", "io.ReadAll", "param:r"), gate.CallOK("", "io.ReadAll", "param:r")),
		gate.CallOK("D.meta", "bundle.loadMetadata", "call:i*.ReadAll(param:r)#0"))
	forAllIterations(e, "FORALL", rd, "call:bundle.loadMetadata(*)#0.requests", noCfg,
		gate.CallOK("D.each", "bundle.loadResponse", "call:bundle.loadMetadata(*)#0.requests[rangeidx]", "call:i*.ReadAll(param:r)#0"))
	forAllIterations(e, "FORALL", rd, "call:bundle.loadMetadata(*)#0.requests", noCfg,
		gate.Gate{Key: "D.keep", Desc: "the loaded exchange is appended", Instr: collects("bundle.Exchange")})
	e.R.Floor("GATE", 20)
	e.R.Floor("FORALL", 11)
	_ = load.FuncName
}

// sectionCursor: rule (c) on the section loop of loadMetadata.
func sectionCursor(e *Env, lm *ssa.Function) {
	if lm == nil {
		return
	}
	var ph *ssa.Phi
	for _, b := range lm.Blocks {
		for _, in := range b.Instrs {
			if p, ok := in.(*ssa.Phi); ok && prov.CanonLocal(p.Parent(), p.Comment) == "offset" {
				// the loop-header phi: has an incoming back edge
				for i := range p.Edges {
					if b.Dominates(b.Preds[i]) {
						ph = p
					}
				}
			}
		}
	}
	key := "bundle.loadMetadata:section-cursor"
	if ph == nil {
		e.R.Undecided("CURSOR", key, e.P.Pos(lm.Pos()), "cannot find the loop-carried section cursor 'offset'")
		return
	}
	h := ph.Block()
	isAdvance := func(v ssa.Value) bool {
		bo, ok := v.(*ssa.BinOp)
		if !ok || bo.Op != token.ADD {
			return false
		}
		other := bo.Y
		if bo.Y == ssa.Value(ph) {
			other = bo.X
		} else if bo.X != ssa.Value(ph) {
			return false
		}
		return strings.HasSuffix(prov.Of(other), "[rangeidx].Length")
	}
	n := 0
	var bad []string
	var visit func(v ssa.Value, from, to *ssa.BasicBlock, d int)
	seen := map[ssa.Value]map[*ssa.BasicBlock]bool{}
	visit = func(v ssa.Value, from, to *ssa.BasicBlock, d int) {
		if d > 10 {
			bad = append(bad, "phi nesting too deep")
			return
		}
		if seen[v] == nil {
			seen[v] = map[*ssa.BasicBlock]bool{}
		}
		if seen[v][from] {
			return
		}
		seen[v][from] = true
		if isAdvance(v) {
			n++
			return
		}
		if v == ssa.Value(ph) {
			// cursor unchanged on this path: only when the section is "responses"
			n++
			isResp := func(f gate.Fact) bool {
				return f.Kind == gate.FCmp && f.Op == token.EQL && strings.HasSuffix(prov.Of(f.X), "[rangeidx].Name") && prov.Of(f.Y) == `const:"responses"`
			}
			onEdge := false
			if ifi, ok := from.Instrs[len(from.Instrs)-1].(*ssa.If); ok {
				for i, s := range from.Succs {
					if s == to {
						for _, f := range gate.EdgeFacts(ifi.Cond, i == 0) {
							if isResp(f) {
								onEdge = true
							}
						}
					}
				}
			}
			if !onEdge && !dominatedBy(from, isResp) {
				bad = append(bad, "block "+e.P.Pos(firstPos(from))+" reaches the next iteration with the cursor unchanged although the section is not \"responses\"")
			}
			return
		}
		if p2, ok := v.(*ssa.Phi); ok {
			for i, ed := range p2.Edges {
				visit(ed, p2.Block().Preds[i], p2.Block(), d+1)
			}
			return
		}
		bad = append(bad, "cursor receives "+short(prov.Of(v))+", which is neither offset+so.Length nor the unchanged cursor")
	}
	for i, ed := range ph.Edges {
		if h.Dominates(h.Preds[i]) {
			visit(ed, h.Preds[i], h, 0)
		}
	}
	if len(bad) == 0 && n > 0 {
		e.R.OK("CURSOR", key, e.P.InstrPos(ph), "on every back edge of the section loop the cursor was advanced by the section's length, or the section is \"responses\" (the table's last entry)")
	} else {
		e.R.Fail("CURSOR", key, e.P.Pos(lm.Pos()), "a section can be stepped over without advancing the cursor: every later section is then read from the wrong place", bad...)
	}
}

func firstPos(b *ssa.BasicBlock) token.Pos {
	for _, in := range b.Instrs {
		if in.Pos().IsValid() {
			return in.Pos()
		}
	}
	return token.NoPos
}
