package props

import (
	"fmt"
	"go/constant"
	"go/token"

	"golang.org/x/tools/go/ssa"

	"wpverif/internal/load"
	"wpverif/internal/prov"
)

// tailBoundsGuarded is rule TAILIDX: an index or slice bound of the form
// len(x) - C counts from the end of x and faults when x is shorter than it
// assumes: x[len(x)-1] needs len(x) >= 1, x[1:len(x)-1] needs len(x) >= 2
// (seed C10-g: a quoted directive argument unquoted with arg[1:len(arg)-1]
// after testing only that its first and its last byte are quotes — the lone
// quote is both).  Each such site must be dominated by comparisons on len(x)
// (or HasPrefix/HasSuffix with a constant) that establish the needed length.
func tailBoundsGuarded(e *Env, floor int, scope map[*ssa.Function]bool) {
	n := 0
	for _, fn := range sortedFuncs(scope) {
		if !e.P.IsLibrary(fn) {
			continue
		}
		k := 0
		for _, b := range fn.Blocks {
			for _, in := range b.Instrs {
				var x, bound ssa.Value
				var lowC int64
				switch t := in.(type) {
				case *ssa.IndexAddr:
					x, bound = t.X, t.Index
				case *ssa.Index:
					x, bound = t.X, t.Index
				case *ssa.Slice:
					x, bound = t.X, t.High
					if t.Low != nil {
						c, ok := t.Low.(*ssa.Const)
						if !ok || c.Value == nil || c.Value.Kind() != constant.Int {
							continue
						}
						lowC, _ = constant.Int64Val(c.Value)
					}
				default:
					continue
				}
				c, ok := lenMinusConst(bound, x)
				if !ok {
					continue
				}
				n++
				k++
				need := c + lowC
				key := fmt.Sprintf("%s:tail-bound#%d(len(%s)-%d)", load.FuncName(fn), k, short(prov.Of(base(x))), c)
				have := lenLowerBound(base(x), b)
				if have >= need {
					e.R.OK("TAILIDX", key, e.P.InstrPos(in), fmt.Sprintf("dominating comparisons establish len >= %d (needed %d)", have, need))
				} else {
					e.R.Fail("TAILIDX", key, e.P.InstrPos(in), fmt.Sprintf("a bound counted from the end needs len >= %d, but the comparisons that dominate it establish only len >= %d: a shorter operand panics", need, have))
				}
			}
		}
	}
	e.R.Counts["tail_bounds"] = n
	e.R.Floor("TAILIDX", floor)
}

func constInt(v ssa.Value) (int64, bool) {
	c, ok := v.(*ssa.Const)
	if !ok || c.Value == nil || c.Value.Kind() != constant.Int {
		return 0, false
	}
	return constant.Int64Val(c.Value)
}

func isLenOf(v, x ssa.Value) bool {
	c, ok := v.(*ssa.Call)
	if !ok || prov.CalleeName(&c.Call) != "builtin:len" || len(c.Call.Args) != 1 {
		return false
	}
	a := base(c.Call.Args[0])
	return a == base(x) || prov.Of(a) == prov.Of(base(x))
}

// lenMinusConst: v is len(x) - C with C >= 1.
func lenMinusConst(v, x ssa.Value) (int64, bool) {
	bo, ok := v.(*ssa.BinOp)
	if !ok || bo.Op != token.SUB || !isLenOf(bo.X, x) {
		return 0, false
	}
	c, ok := constInt(bo.Y)
	return c, ok && c >= 1
}

// lenLowerBound: the largest lower bound on len(x) established by the branch
// edges that dominate block b.
func lenLowerBound(x ssa.Value, b *ssa.BasicBlock) int64 {
	best := int64(0)
	up := func(v int64) {
		if v > best {
			best = v
		}
	}
	cur := b
	for d := b.Idom(); d != nil; cur, d = d, d.Idom() {
		ifi, ok := d.Instrs[len(d.Instrs)-1].(*ssa.If)
		if !ok {
			continue
		}
		// which edge leads to cur?
		var taken int
		switch {
		case d.Succs[0] == cur && d.Succs[1] != cur && len(cur.Preds) == 1:
			taken = 0
		case d.Succs[1] == cur && d.Succs[0] != cur && len(cur.Preds) == 1:
			taken = 1
		default:
			continue
		}
		isTrue := taken == 0
		switch c := ifi.Cond.(type) {
		case *ssa.BinOp:
			op, l, r := c.Op, c.X, c.Y
			if k, ok := constInt(l); ok && isLenOf(r, x) { // K op len  ->  len op' K
				_ = k
				l, r = r, l
				switch op {
				case token.LSS:
					op = token.GTR
				case token.LEQ:
					op = token.GEQ
				case token.GTR:
					op = token.LSS
				case token.GEQ:
					op = token.LEQ
				}
			}
			k, ok := constInt(r)
			if !ok || !isLenOf(l, x) {
				continue
			}
			switch {
			case op == token.GTR && isTrue, op == token.LEQ && !isTrue:
				up(k + 1)
			case op == token.GEQ && isTrue, op == token.LSS && !isTrue, op == token.EQL && isTrue:
				up(k)
			case op == token.NEQ && isTrue && k == 0, op == token.EQL && !isTrue && k == 0:
				up(1)
			}
		case *ssa.Call:
			cn := prov.CalleeName(&c.Call)
			if (cn == "strings.HasPrefix" || cn == "strings.HasSuffix" || cn == "bytes.HasPrefix" || cn == "bytes.HasSuffix") && isTrue && len(c.Call.Args) == 2 {
				if a := base(c.Call.Args[0]); a == base(x) || prov.Of(a) == prov.Of(base(x)) {
					if k, ok := c.Call.Args[1].(*ssa.Const); ok && k.Value != nil && k.Value.Kind() == constant.String {
						up(int64(len(constant.StringVal(k.Value))))
					}
				}
			}
		}
	}
	return best
}
