package props

import (
	"go/token"
	"sort"
	"strings"

	"golang.org/x/tools/go/ssa"

	"wpverif/internal/gate"
	"wpverif/internal/prov"
)

func withAnon(fn *ssa.Function) []*ssa.Function {
	out := []*ssa.Function{fn}
	for _, a := range fn.AnonFuncs {
		out = append(out, withAnon(a)...)
	}
	return out
}

// closuresWithHelpers: the closures of fn and, for every helper the rule
// tables do not know that fn (or one of its closures) calls, that helper and
// its closures.
func closuresWithHelpers(e *Env, fn *ssa.Function) []*ssa.Function {
	out := withAnon(fn)[1:]
	seen := map[*ssa.Function]bool{fn: true}
	for _, f := range withAnon(fn) {
		for _, c := range unknownHelperCalls(e, f) {
			h := c.Call.StaticCallee()
			if seen[h] {
				continue
			}
			seen[h] = true
			out = append(out, withAnon(h)...)
		}
	}
	return out
}

// constCallArgs: the constant values passed as argument argIdx (receiver
// excluded from numbering for static calls: index into CallCommon.Args) to
// calls matching calleePat in fn and its closures.
func constCallArgs(fn *ssa.Function, calleePat string, argIdx int) []string {
	set := map[string]bool{}
	var scan func(fn *ssa.Function, depth int)
	scan = func(fn *ssa.Function, depth int) {
		for _, f := range withAnon(fn) {
			for _, b := range f.Blocks {
				for _, in := range b.Instrs {
					c, ok := in.(ssa.CallInstruction)
					if !ok {
						continue
					}
					if !prov.Match(calleePat, prov.CalleeName(c.Common())) {
						// a helper the rule tables do not know: the same scan inside it,
						// with its parameters standing for the arguments of this call
						if h := c.Common().StaticCallee(); h != nil && h.Blocks != nil && depth < 2 && !prov.KnownFunction(h) && h.Pkg != nil &&
							strings.HasPrefix(h.Pkg.Pkg.Path(), prov.ModulePrefix) && len(c.Common().Args) == len(h.Params) && !c.Common().IsInvoke() {
							prov.PushSubst(h, c.Common())
							scan(h, depth+1)
							prov.PopSubst()
						}
						continue
					}
					args := c.Common().Args
					if argIdx < len(args) {
						t := prov.Of(args[argIdx])
						t = strings.TrimSuffix(strings.TrimPrefix(t, "conv("), ")")
						if strings.HasPrefix(t, "const:") {
							set[strings.TrimPrefix(t, "const:")] = true
						}
					}
				}
			}
		}
	}
	scan(fn, 0)
	return sortedKeys(set)
}

// switchConsts: constants c such that fn branches on (value == c) where the
// value's provenance matches valuePat.
func switchConsts(fn *ssa.Function, valuePat string) []string {
	set := map[string]bool{}
	var scan func(fn *ssa.Function, depth int)
	scan = func(fn *ssa.Function, depth int) {
		for _, f := range withAnon(fn) {
			for _, b := range f.Blocks {
				// a helper the rule tables do not know: the same scan inside it, with
				// its parameters standing for the arguments of the call
				for _, in := range b.Instrs {
					c, ok := in.(*ssa.Call)
					if !ok || depth >= 2 {
						continue
					}
					if h := c.Call.StaticCallee(); h != nil && h.Blocks != nil && !prov.KnownFunction(h) && h.Pkg != nil &&
						strings.HasPrefix(h.Pkg.Pkg.Path(), prov.ModulePrefix) && len(c.Call.Args) == len(h.Params) {
						prov.PushSubst(h, &c.Call)
						scan(h, depth+1)
						prov.PopSubst()
					}
				}
				ifi, ok := b.Instrs[len(b.Instrs)-1].(*ssa.If)
				if !ok {
					continue
				}
				for _, ft := range gate.EdgeFacts(ifi.Cond, true) {
					if ft.Kind != gate.FCmp || (ft.Op != token.EQL && ft.Op != token.NEQ) {
						continue
					}
					if k, ok := ft.Y.(*ssa.Const); ok && prov.Match(valuePat, prov.Of(ft.X)) {
						set[strings.TrimPrefix(prov.Of(k), "const:")] = true
					}
				}
			}
		}
	}
	scan(fn, 0)
	return sortedKeys(set)
}

func sortedKeys(m map[string]bool) []string {
	var out []string
	for k := range m {
		out = append(out, k)
	}
	sort.Strings(out)
	return out
}

// tableEqual records a TABLE obligation comparing two constant sets.
func (e *Env) tableEqual(key, pos string, got, want []string, whatGot, whatWant string) {
	missing, extra := sameSet(got, want)
	if len(missing) == 0 && len(extra) == 0 && len(got) > 0 {
		e.R.OK("TABLE", key, pos, whatGot+" = "+whatWant+" = {"+strings.Join(got, ",")+"}")
	} else {
		e.R.Fail("TABLE", key, pos, whatGot+" and "+whatWant+" disagree",
			whatGot+": {"+strings.Join(got, ",")+"}", whatWant+": {"+strings.Join(want, ",")+"}")
	}
}

// before: instruction a executes before b on every path that reaches b
// (same block and earlier, or a's block strictly dominates b's).
func before(a, b ssa.Instruction) bool {
	if a.Block() == b.Block() {
		for _, in := range a.Block().Instrs {
			if in == a {
				return true
			}
			if in == b {
				return false
			}
		}
		return false
	}
	return a.Block().Dominates(b.Block())
}
