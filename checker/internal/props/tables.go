package props

import (
	"go/token"
	"sort"
	"strings"

	"golang.org/x/tools/go/ssa"

	"wpverif/internal/gate"
	"wpverif/internal/prov"
)

func withAnon(fn *ssa.Function) []*ssa.Function {
	out := []*ssa.Function{fn}
	for _, a := range fn.AnonFuncs {
		out = append(out, withAnon(a)...)
	}
	return out
}

// constCallArgs: the constant values passed as argument argIdx (receiver
// excluded from numbering for static calls: index into CallCommon.Args) to
// calls matching calleePat in fn and its closures.
func constCallArgs(fn *ssa.Function, calleePat string, argIdx int) []string {
	set := map[string]bool{}
	for _, f := range withAnon(fn) {
		for _, b := range f.Blocks {
			for _, in := range b.Instrs {
				c, ok := in.(ssa.CallInstruction)
				if !ok || !prov.Match(calleePat, prov.CalleeName(c.Common())) {
					continue
				}
				args := c.Common().Args
				if argIdx < len(args) {
					if k, ok := args[argIdx].(*ssa.Const); ok {
						set[strings.TrimPrefix(prov.Of(k), "const:")] = true
					} else if cv, ok := args[argIdx].(*ssa.Convert); ok {
						if k, ok := cv.X.(*ssa.Const); ok {
							set[strings.TrimPrefix(prov.Of(k), "const:")] = true
						}
					}
				}
			}
		}
	}
	return sortedKeys(set)
}

// switchConsts: constants c such that fn branches on (value == c) where the
// value's provenance matches valuePat.
func switchConsts(fn *ssa.Function, valuePat string) []string {
	set := map[string]bool{}
	for _, f := range withAnon(fn) {
		for _, b := range f.Blocks {
			ifi, ok := b.Instrs[len(b.Instrs)-1].(*ssa.If)
			if !ok {
				continue
			}
			for _, ft := range gate.EdgeFacts(ifi.Cond, true) {
				if ft.Kind != gate.FCmp || (ft.Op != token.EQL && ft.Op != token.NEQ) {
					continue
				}
				if k, ok := ft.Y.(*ssa.Const); ok && prov.Match(valuePat, prov.Of(ft.X)) {
					set[strings.TrimPrefix(prov.Of(k), "const:")] = true
				}
			}
		}
	}
	return sortedKeys(set)
}

func sortedKeys(m map[string]bool) []string {
	var out []string
	for k := range m {
		out = append(out, k)
	}
	sort.Strings(out)
	return out
}

// tableEqual records a TABLE obligation comparing two constant sets.
func (e *Env) tableEqual(key, pos string, got, want []string, whatGot, whatWant string) {
	missing, extra := sameSet(got, want)
	if len(missing) == 0 && len(extra) == 0 && len(got) > 0 {
		e.R.OK("TABLE", key, pos, whatGot+" = "+whatWant+" = {"+strings.Join(got, ",")+"}")
	} else {
		e.R.Fail("TABLE", key, pos, whatGot+" and "+whatWant+" disagree",
			whatGot+": {"+strings.Join(got, ",")+"}", whatWant+": {"+strings.Join(want, ",")+"}")
	}
}

// before: instruction a executes before b on every path that reaches b
// (same block and earlier, or a's block strictly dominates b's).
func before(a, b ssa.Instruction) bool {
	if a.Block() == b.Block() {
		for _, in := range a.Block().Instrs {
			if in == a {
				return true
			}
			if in == b {
				return false
			}
		}
		return false
	}
	return a.Block().Dominates(b.Block())
}
