package props

import (
	"fmt"
	"go/token"
	"strings"

	"golang.org/x/tools/go/ssa"

	"wpverif/internal/load"
	"wpverif/internal/prov"
)

// copiesAreExact is rule COPYLEN: the builtin copy moves min(len(dst),
// len(src)) bytes and says nothing when the source is shorter than the
// destination.  In a parser that is a tolerant read: bytes the input does
// not have are taken as zero (seed C13-f: the argument of a CBOR head copied
// into a fixed 8-byte buffer, so a head cut short was accepted).  Every copy
// in the named functions must (a) have its count used, (b) have a destination
// made with the length of the source (possibly a window of it: a prepend
// copies into made[1:]), or (c) be dominated by a comparison on
// the length of the source's base.  Index and slice expressions need no such
// rule: they fault on a short operand.
func copiesAreExact(e *Env, floor int, prefixes ...string) {
	n := 0
	for _, fn := range e.P.Funcs {
		if !e.P.IsLibrary(fn) || !hasPrefixAny(load.FuncName(fn), prefixes...) {
			continue
		}
		k := 0
		for _, b := range fn.Blocks {
			for _, in := range b.Instrs {
				c, ok := in.(*ssa.Call)
				if !ok || prov.CalleeName(&c.Call) != "builtin:copy" {
					continue
				}
				n++
				k++
				key := fmt.Sprintf("%s:copy#%d", load.FuncName(fn), k)
				dst, src := c.Call.Args[0], c.Call.Args[1]
				if len(*c.Referrers()) > 0 {
					e.R.OK("COPYLEN", key, e.P.InstrPos(in), "the number of bytes copied is used")
					continue
				}
				sp := prov.Of(src)
				if dp := prov.Of(dst); strings.Contains(dp, "make(") && strings.Contains(dp, "len("+sp+")") {
					e.R.OK("COPYLEN", key, e.P.InstrPos(in), "the destination was made with the length of the source")
					continue
				}
				if lenTestDominates(base(src), b) {
					e.R.OK("COPYLEN", key, e.P.InstrPos(in), "a comparison on the length of the source dominates the copy")
					continue
				}
				if filledByReadFull(fn, base(src), b) {
					e.R.OK("COPYLEN", key, e.P.InstrPos(in), "the source buffer was filled completely by an io.ReadFull whose error was nil on every path to the copy")
					continue
				}
				e.R.Fail("COPYLEN", key, e.P.InstrPos(in), "copy from "+short(sp)+" into "+short(prov.Of(dst))+" tolerates a source that is shorter than the destination: the count is not used, the destination is not sized by the source, and no length comparison dominates it")
			}
		}
	}
	e.R.Counts["copy_sites"] = n
	e.R.Floor("COPYLEN", floor)
}

func base(v ssa.Value) ssa.Value {
	for {
		switch x := v.(type) {
		case *ssa.Slice:
			v = x.X
		case *ssa.ChangeType:
			v = x.X
		default:
			return v
		}
	}
}

// lenTestDominates: a block that dominates b ends in a branch whose condition
// compares len(x) with something, x having the same base.
func lenTestDominates(bs ssa.Value, b *ssa.BasicBlock) bool {
	isLen := func(v ssa.Value) bool {
		c, ok := v.(*ssa.Call)
		return ok && prov.CalleeName(&c.Call) == "builtin:len" && len(c.Call.Args) == 1 && (base(c.Call.Args[0]) == bs || prov.Of(base(c.Call.Args[0])) == prov.Of(bs))
	}
	var mentions func(v ssa.Value, d int) bool
	mentions = func(v ssa.Value, d int) bool {
		if d > 4 {
			return false
		}
		if isLen(v) {
			return true
		}
		switch x := v.(type) {
		case *ssa.BinOp:
			return mentions(x.X, d+1) || mentions(x.Y, d+1)
		case *ssa.Convert:
			return mentions(x.X, d+1)
		}
		return false
	}
	for d := b.Idom(); d != nil; d = d.Idom() {
		ifi, ok := d.Instrs[len(d.Instrs)-1].(*ssa.If)
		if !ok {
			continue
		}
		bo, ok := ifi.Cond.(*ssa.BinOp)
		if !ok {
			continue
		}
		switch bo.Op {
		case token.LSS, token.LEQ, token.GTR, token.GEQ, token.EQL, token.NEQ:
			if mentions(bo.X, 0) || mentions(bo.Y, 0) {
				return true
			}
		}
	}
	return false
}

// filledByReadFull: fn calls io.ReadFull(_, buf) with buf of the same base,
// and b is dominated by the nil side of a nil test of that call's error.
func filledByReadFull(fn *ssa.Function, bs ssa.Value, b *ssa.BasicBlock) bool {
	for _, bb := range fn.Blocks {
		for _, in := range bb.Instrs {
			c, ok := in.(*ssa.Call)
			if !ok || prov.CalleeName(&c.Call) != "io.ReadFull" || len(c.Call.Args) != 2 || prov.Of(base(c.Call.Args[1])) != prov.Of(bs) {
				continue
			}
			for _, ref := range *c.Referrers() {
				ex, ok := ref.(*ssa.Extract)
				if !ok || ex.Index != 1 {
					continue
				}
				for _, r2 := range *ex.Referrers() {
					bo, ok := r2.(*ssa.BinOp)
					if !ok || (bo.Op != token.NEQ && bo.Op != token.EQL) {
						continue
					}
					other := bo.Y
					if bo.Y == ssa.Value(ex) {
						other = bo.X
					}
					if k, ok := other.(*ssa.Const); !ok || k.Value != nil {
						continue
					}
					for _, r3 := range *bo.Referrers() {
						ifi, ok := r3.(*ssa.If)
						if !ok {
							continue
						}
						nilSide := ifi.Block().Succs[1]
						if bo.Op == token.EQL {
							nilSide = ifi.Block().Succs[0]
						}
						if len(nilSide.Preds) == 1 && (nilSide == b || nilSide.Dominates(b)) {
							return true
						}
					}
				}
			}
		}
	}
	return false
}
