package props

import (
	"fmt"
	"go/token"
	"strings"

	"golang.org/x/tools/go/ssa"

	"wpverif/internal/gate"
	"wpverif/internal/prov"
)

func init() { register("C08", checkC08) }

// Specification constants (draft-yasskin-http-origin-signed-responses and its
// implementation snapshots b1/b2/b3, shipped in the repository; DESIGN Appendix B).
var (
	specContext = map[string]string{"1b1": "HTTP Exchange 1 b1", "1b2": "HTTP Exchange 1 b2", "1b3": "HTTP Exchange 1 b3"}
	specMagic   = map[string]string{"1b1": "sxg1-b1\x00", "1b2": "sxg1-b2\x00", "1b3": "sxg1-b3\x00"}
	specMice    = map[string]string{"1b1": "mi-sha256-draft2", "1b2": "mi-sha256-03", "1b3": "mi-sha256-03"}
	specIntegr  = map[string]string{"mi-sha256-draft2": "mi-draft2", "mi-sha256-03": "digest/mi-sha256-03"}
	specDigestH = map[string]string{"mi-sha256-draft2": "MI-Draft2", "mi-sha256-03": "Digest"}
	specSigKeys = []string{`"cert-sha256"`, `"cert-url"`, `"date"`, `"expires"`, `"integrity"`, `"sig"`, `"validity-url"`}
)

func exitsUnder(e *Env, fnName string, cfg gcfg, idx int) []string {
	fn, ok := e.P.FuncOK(fnName)
	if !ok {
		return nil
	}
	return gate.New(e.P, e.P.VTA(), cfg.assume...).ExitsUnder(fn, idx)
}

func tableConst(e *Env, key, pos string, got []string, want string) {
	if len(got) == 1 && got[0] == want {
		e.R.OK("TABLE", key, pos, want)
	} else {
		e.R.Fail("TABLE", key, pos, "constant differs from the specification", "got  "+strings.Join(got, " | "), "want "+want)
	}
}

func checkC08(e *Env) {
	e.R.Explanation = "Decided (structural necessary conditions of C08; the specification's constants and field order are the oracle, frozen in the checker with citation): per version, the context string, the 8-byte file magic, the MI encoding / integrity identifier / digest-header name; the signed message of b2/b3 is, in this order on every path, 64 bytes 0x20, the context string, a 0 byte, (32 and cert-sha256 | a 0 byte when it is not set), 8-byte length and bytes of validity-url, 8-byte date, 8-byte expires, 8-byte length and bytes of the request URL, 8-byte length and bytes of the header CBOR; for b1 the same prefix followed by one canonical map with exactly the keys cert-sha256 (if set), validity-url (byte string), date, expires (integers), headers; the file layout of Write per version (magic, [2-byte URL length, URL,] 3-byte sigLength, 3-byte headerLength, signature, headers, payload); the Signature header's parameter keys are exactly the seven of the specification and cert-url must be https or data; the header CBOR uses the pseudo keys ':status' / ':method' / ':url', byte strings for names and values, status as decimal text, [request, response] for b1/b2; header-integrity is \"sha256-\" + base64(SHA-256(exactly the bytes of DumpExchangeHeaders)). " +
		"Not decided: byte-for-byte equality with an independent implementation for all inputs (of canonical CBOR only the shortest-head ladder is re-checked here, map ordering is C11's; sorted parameters C16's); X.509/OCSP content."
	e.R.RuleText = "E7 constant tables by CFG folding per version, compared with specification constants; emission-order rule (reachability between the write instructions in the version-specialised CFG) + must-pass for each step; store/result provenance"
	// ERRUSE: no error of a data-fallible module call is lost on the way (shared rule, erruse.go)
	moduleErrorsConsumed(e, erruseEntries, 10, "signedexchange.")
	vpkg := "signedexchange/version."
	for _, v := range sxgVersions {
		cfg := sxgVersion(v)
		tableConst(e, "contextString:"+v, "-", exitsUnder(e, "signedexchange.contextString", cfg, 0), fmt.Sprintf("const:%q", specContext[v]))
		tableConst(e, "HeaderMagicBytes:"+v, "-", exitsUnder(e, vpkg+"(Version).HeaderMagicBytes", cfg, 0), fmt.Sprintf("conv(const:%q)", specMagic[v]))
		tableConst(e, "MiceEncoding:"+v, "-", exitsUnder(e, vpkg+"(Version).MiceEncoding", cfg, 0), fmt.Sprintf("const:%q", specMice[v]))
	}
	for enc, id := range specIntegr {
		cfg := gcfg{name: "enc=" + enc, assume: []gate.Assumption{{TypeName: "signedexchange/mice.Encoding", Value: fmt.Sprintf("%q", enc)}}}
		tableConst(e, "IntegrityIdentifier:"+enc, "-", exitsUnder(e, "signedexchange/mice.(Encoding).IntegrityIdentifier", cfg, 0), fmt.Sprintf("const:%q", id))
		tableConst(e, "DigestHeaderName:"+enc, "-", exitsUnder(e, "signedexchange/mice.(Encoding).DigestHeaderName", cfg, 0), fmt.Sprintf("const:%q", specDigestH[enc]))
	}
	// reader recognises exactly these magics
	if fm := e.fn(vpkg + "FromMagicBytes"); fm != nil {
		var got []string
		for _, b := range fm.Blocks {
			for _, in := range b.Instrs {
				if c, ok := in.(*ssa.Call); ok && prov.CalleeName(&c.Call) == "bytes.Equal" {
					got = append(got, prov.Of(c.Call.Args[1]))
				}
			}
		}
		want := []string{}
		for _, v := range sxgVersions {
			want = append(want, fmt.Sprintf("call:(signedexchange/version.Version).HeaderMagicBytes(const:%q)", v))
		}
		e.tableEqual("FromMagicBytes:compared-with", e.P.Pos(fm.Pos()), dedup(got), dedup(want), "magics the reader compares with", "HeaderMagicBytes of every declared version")
	}

	// signed message, b2/b3
	ssm := e.fn("signedexchange.serializeSignedMessage")
	out := gate.Outcome{Kind: gate.ErrNil, Idx: 1}
	be8 := func(x string) string { return "call:bigendian.EncodeBytesUint(" + x + ",const:8)#0" }
	w := func(name, arg string) step {
		return step{name, gate.CallInstr(name, "(*bytes.Buffer).Write", "local:buf", arg)}
	}
	for _, v := range []string{"1b2", "1b3"} {
		cfg := sxgVersion(v)
		steps := []step{
			{"64x0x20", prefixStep()},
			{"context", gate.CallInstr("context", "(*bytes.Buffer).WriteString", "local:buf", "call:signedexchange.contextString(param:e.Version)")},
			{"separator-0", gate.CallInstr("separator-0", "(*bytes.Buffer).WriteByte", "local:buf", "const:0")},
			w("validity-url.len", be8("conv(len(conv(param:validityUrl)))")),
			w("validity-url", "conv(param:validityUrl)"),
			w("date", be8("param:date")),
			w("expires", be8("param:expires")),
			w("url.len", be8("conv(len(conv(param:e.RequestURI)))")),
			w("url", "conv(param:e.RequestURI)"),
			w("headers.len", be8("conv({call:(*bytes.Buffer).Len({alloc:bytes.Buffer|local:*})|len(call:(*bytes.Buffer).Bytes({alloc:bytes.Buffer|local:*}))})")),
			{"headers", either("headers", "the header CBOR is appended to the message",
				gate.CallInstr("", "(*bytes.Buffer).WriteTo", "{alloc:bytes.Buffer|local:*}", "local:buf"),
				gate.CallInstr("", "(*bytes.Buffer).Write", "local:buf", "call:(*bytes.Buffer).Bytes({alloc:bytes.Buffer|local:*})"))},
		}
		// the separator 0 and the "cert-sha256 not set" 0 are both WriteByte(0): split by the certSha256 test
		e.sequenceOrder("ORDER", ssm, cfg, "signed-message", append(steps[:2:2], steps[3:]...))
		// cert-sha256 part: set => 32 then the hash; not set => a 0 byte; both after the context, before validity-url
		set := gcfg{name: cfg.name + ",cert-sha256 set", assume: append(append([]gate.Assumption{}, cfg.assume...), gate.Assumption{ProvPat: "param:certSha256", Value: "nil", NotEqual: true})}
		unset := gcfg{name: cfg.name + ",cert-sha256 unset", assume: append(append([]gate.Assumption{}, cfg.assume...), gate.Assumption{ProvPat: "param:certSha256", Value: "nil"})}
		e.requireGates("GATE", ssm, out, set,
			gate.CallInstr("msg.cert.32", "(*bytes.Buffer).WriteByte", "local:buf", "const:32").WithInstrIn(func(in ssa.Instruction) bool { return !notCertBlock(in) }),
			gate.CallInstr("msg.cert.value", "(*bytes.Buffer).Write", "local:buf", "param:certSha256"))
		e.sequenceOrder("ORDER", ssm, set, "cert-sha256", []step{steps[1], w("cert-sha256", "param:certSha256"), steps[3]})
		zeroWrites(e, ssm, unset, 2)   // separator + "not set" byte
		zeroWrites(e, ssm, set, 1)     // separator only
		for _, st := range steps[1:] { // the prefix loop has its own obligation (prefixLoop)
			e.requireGates("GATE", ssm, out, cfg, st.g)
		}
		prefixLoop(e, ssm, cfg)
	}
	// b1: map keys and value kinds
	if ssm != nil {
		keys := constCallArgs(ssm, "(*cbor.Encoder).EncodeTextString", 1)
		e.tableEqual("signed-message-b1:keys", e.P.Pos(ssm.Pos()), keys, []string{`"cert-sha256"`, `"date"`, `"expires"`, `"headers"`, `"validity-url"`}, "keys of the b1 signed-message map", "specification")
		cfg := sxgVersion("1b1")
		e.sequenceOrder("ORDER", ssm, cfg, "signed-message", []step{
			{"64x0x20", prefixStep()},
			{"context", gate.CallInstr("context", "(*bytes.Buffer).WriteString", "local:buf", "call:signedexchange.contextString(param:e.Version)")},
			{"separator-0", gate.CallInstr("separator-0", "(*bytes.Buffer).WriteByte", "local:buf", "const:0")},
			{"map", gate.CallInstr("map", "(*cbor.Encoder).EncodeMap", "call:cbor.NewEncoder(local:buf)", "*")},
		})
		prefixLoop(e, ssm, cfg)
	}

	// file layout
	wr := e.fn("signedexchange.(*Exchange).Write")
	ww := func(name, arg string) step {
		return step{name, gate.CallInstr(name, "invoke:io.Writer.Write", "param:w", arg)}
	}
	tHL := "call:(*bytes.Buffer).Len(local:headerBuf)"
	sigLen := ww("sigLength", "call:bigendian.EncodeBytesUint(conv(len(param:e.SignatureHeaderValue)),const:3)#0")
	hdrLen := ww("headerLength", "call:bigendian.EncodeBytesUint(conv("+tHL+"),const:3)#0")
	tail := []step{sigLen, hdrLen, ww("signature", "conv(param:e.SignatureHeaderValue)"),
		{"headers", gate.CallInstr("headers", "io.Copy", "param:w", "local:headerBuf")}, ww("payload", "param:e.Payload")}
	magic := ww("magic", "call:(signedexchange/version.Version).HeaderMagicBytes(param:e.Version)")
	e.sequenceOrder("ORDER", wr, sxgVersion("1b1"), "file-layout", append([]step{magic}, tail...))
	for _, v := range []string{"1b2", "1b3"} {
		e.sequenceOrder("ORDER", wr, sxgVersion(v), "file-layout", append([]step{magic,
			ww("fallbackUrlLength", "call:bigendian.EncodeBytesUint(conv(len(param:e.RequestURI)),const:2)#0"),
			ww("fallbackUrl", "conv(param:e.RequestURI)")}, tail...))
	}

	// Signature header
	if sg := e.fn("signedexchange.(*Signer).signatureHeaderValue"); sg != nil {
		// the map updates of the function and of helpers the rule tables do not
		// know, rendered with the helpers' parameters standing for the arguments
		type upd struct{ key, val string }
		var upds []upd
		scan := func(f *ssa.Function) {
			for _, b := range f.Blocks {
				for _, in := range b.Instrs {
					if mu, ok := in.(*ssa.MapUpdate); ok {
						upds = append(upds, upd{prov.Of(mu.Key), prov.Of(mu.Value)})
					}
				}
			}
		}
		scan(sg)
		for _, c := range unknownHelperCalls(e, sg) {
			prov.PushSubst(c.Call.StaticCallee(), &c.Call)
			scan(c.Call.StaticCallee())
			prov.PopSubst()
		}
		var keys []string
		for _, u := range upds {
			keys = append(keys, strings.TrimPrefix(u.key, "const:"))
		}
		e.tableEqual("signature-header:parameter-keys", e.P.Pos(sg.Pos()), dedup(keys), specSigKeys, "parameters the signer emits", "specification (section 3.1)")
		e.requireGates("GATE", sg, gate.Outcome{Kind: gate.ErrNil, Idx: 1}, noCfg,
			either("S.cert-url-scheme", "cert-url scheme is https or data",
				gate.Cmp("", "param:s.CertUrl.Scheme", token.EQL, `const:"https"`), gate.Cmp("", "param:s.CertUrl.Scheme", token.EQL, `const:"data"`)),
			gate.CallOK("S.sign", "(*signedexchange.Signer).sign", "param:s", "param:e"))
		for _, kv := range []struct{ key, val string }{
			{"sig", "call:(*signedexchange.Signer).sign(param:s,param:e)#0"},
			{"validity-url", "call:(*url.URL).String(param:s.ValidityUrl)"},
			{"integrity", "call:(mice.Encoding).IntegrityIdentifier(call:(signedexchange/version.Version).MiceEncoding(param:e.Version))"},
			{"cert-url", "call:(*url.URL).String(param:s.CertUrl)"},
			{"cert-sha256", "call:signedexchange.calculateCertSha256(param:s.Certs)"},
			{"date", "call:(time.Time).Unix(param:s.Date)"},
			{"expires", "call:(time.Time).Unix(param:s.Expires)"},
		} {
			found := false
			for _, u := range upds {
				if u.key == fmt.Sprintf("const:%q", kv.key) {
					found = u.val == kv.val
				}
			}
			key := "signature-header:value(" + kv.key + ")"
			if found {
				e.R.OK("RESULT", key, e.P.Pos(sg.Pos()), kv.val)
			} else {
				e.R.Fail("RESULT", key, e.P.Pos(sg.Pos()), "parameter '"+kv.key+"' does not carry "+kv.val)
			}
		}
	}
	// the signer signs the same message the verifier rebuilds
	sn := e.fn("signedexchange.(*Signer).sign")
	e.requireResult("RESULT", sn, gate.Outcome{Kind: gate.ErrNil, Idx: 1}, 0,
		"invoke:signingalgorithm.SigningAlgorithm.Sign(*,call:signedexchange.serializeSignedMessage(param:e,call:signedexchange.calculateCertSha256(param:s.Certs),call:(*url.URL).String(param:s.ValidityUrl),call:(time.Time).Unix(param:s.Date),call:(time.Time).Unix(param:s.Expires))#0)#0",
		"Sign over serializeSignedMessage(e, SHA-256(certs[0]), validity-url, date, expires)")
	e.requireResult("RESULT", e.fn("signedexchange.calculateCertSha256"), gate.Outcome{Kind: gate.NonNil, Idx: 0}, 0, "call:sha256.Sum256(param:certs[const:0].Raw)", "SHA-256 of the first certificate's DER")

	// header CBOR
	if in := e.fn("signedexchange.init"); in != nil {
		want := map[string]string{"global:signedexchange.keyMethod": `conv(const:":method")`, "global:signedexchange.keyURL": `conv(const:":url")`, "global:signedexchange.keyStatus": `conv(const:":status")`}
		for g, v := range want {
			okk := false
			for _, b := range in.Blocks {
				for _, i2 := range b.Instrs {
					if st, ok := i2.(*ssa.Store); ok && prov.Of(st.Addr) == g && prov.Of(st.Val) == v {
						okk = true
					}
				}
			}
			key := "pseudo-key:" + strings.TrimPrefix(g, "global:signedexchange.")
			if okk {
				e.R.OK("TABLE", key, "-", v)
			} else {
				e.R.Fail("TABLE", key, "-", "pseudo-header key differs from the specification: want "+v)
			}
		}
	}
	eeh := e.fn("signedexchange.(*Exchange).encodeExchangeHeaders")
	for _, v := range []string{"1b1", "1b2"} {
		e.requireGates("GATE", eeh, gate.Outcome{Kind: gate.ErrNil, Idx: 0}, sxgVersion(v),
			gate.CallOK("H.array2", "(*cbor.Encoder).EncodeArrayHeader", "param:enc", "const:2"))
		e.sequenceOrder("ORDER", eeh, sxgVersion(v), "headers", []step{
			{"array-header", gate.CallInstr("", "(*cbor.Encoder).EncodeArrayHeader", "param:enc", "const:2")},
			{"request-map", gate.CallInstr("", "(*signedexchange.Exchange).encodeRequestMap", "param:e", "param:enc")},
			{"response-map", gate.CallInstr("", "(*signedexchange.Exchange).encodeResponseMap", "param:e", "param:enc")},
		})
	}
	unreachableCall(e, "GATE", eeh, sxgVersion("1b3"), "(*cbor.Encoder).EncodeArrayHeader", "b3 has no [request, response] array")
	unreachableCall(e, "GATE", eeh, sxgVersion("1b3"), "(*signedexchange.Exchange).encodeRequestMap", "b3 has no request map")
	// names and values are byte strings; the status is decimal text
	for _, fnName := range []string{"signedexchange.encodeHeaders", "signedexchange.(*Exchange).encodeResponseMap", "signedexchange.(*Exchange).encodeRequestMap"} {
		fn := e.fn(fnName)
		if fn == nil {
			continue
		}
		bad := ""
		n := 0
		for _, f := range closuresWithHelpers(e, fn) {
			for _, b := range f.Blocks {
				for _, in := range b.Instrs {
					if c, ok := in.(ssa.CallInstruction); ok {
						name := prov.CalleeName(c.Common())
						if strings.HasPrefix(name, "(*cbor.Encoder).Encode") {
							n++
							if name != "(*cbor.Encoder).EncodeByteString" {
								bad = name
							}
						}
					}
				}
			}
		}
		key := fnName + ":byte-strings"
		if bad == "" && n > 0 {
			e.R.OK("TABLE", key, e.P.Pos(fn.Pos()), fmt.Sprintf("all %d header-map keys and values are encoded as byte strings", n))
		} else {
			e.R.Fail("TABLE", key, e.P.Pos(fn.Pos()), "a header-map key or value is not encoded as a CBOR byte string: "+bad)
		}
	}
	// header integrity
	chi := e.fn("signedexchange.(*Exchange).ComputeHeaderIntegrity")
	e.requireGates("GATE", chi, gate.Outcome{Kind: gate.ErrNil, Idx: 1}, noCfg,
		gate.CallOK("I.dump", "(*signedexchange.Exchange).DumpExchangeHeaders", "param:e", "local:headerBuf"))
	// the header bytes written are encoded from the exchange as it is now, on
	// every successful path (seed C08-g: a cache of an earlier encoding)
	if deh := e.fn("signedexchange.(*Exchange).DumpExchangeHeaders"); deh != nil {
		e.requireGates("GATE", deh, gate.Outcome{Kind: gate.ErrNil, Idx: 0}, noCfg,
			gate.CallOK("DH.encode-now", "(*signedexchange.Exchange).encodeExchangeHeaders", "param:e", "call:cbor.NewEncoder(param:w)"))
	}
	e.requireResult("RESULT", chi, gate.Outcome{Kind: gate.ErrNil, Idx: 1}, 0,
		`(const:"sha256-" + call:(*base64.Encoding).EncodeToString(global:base64.StdEncoding,call:sha256.Sum256(call:(*bytes.Buffer).Bytes(local:headerBuf))))`,
		`"sha256-" + base64(SHA-256(header bytes))`)
	// header values enter the CBOR as they are, joined with ","
	e.requireResult("RESULT", e.fn("signedexchange.normalizeHeaderValues"), gate.Outcome{Kind: gate.AnyReturn}, 0, `call:strings.Join(param:values,const:",")`, "the field values as-is, joined with ','")
	// the canonical CBOR the signed headers are serialized in: shortest heads
	// (the ladder shared with C04/C11/C12)
	encoderHeadTable(e)
	e.R.Floor("TABLE", 20)
	e.R.Floor("ORDER", 30)
	e.R.Floor("GATE", 25)
	e.R.Floor("RESULT", 9)
}

// prefixLoop: the 64-space prefix is a loop of exactly 64 iterations writing 0x20.
func prefixLoop(e *Env, fn *ssa.Function, cfg gcfg) {
	ctx := gate.New(e.P, e.P.VTA(), cfg.assume...)
	key := "signedexchange.serializeSignedMessage:prefix-64x0x20"
	for _, b := range ctx.ReachableBlocks(fn) {
		ifi, ok := b.Instrs[len(b.Instrs)-1].(*ssa.If)
		if !ok {
			continue
		}
		c, ok := ifi.Cond.(*ssa.BinOp)
		if !ok || c.Op != token.LSS || prov.Of(c.Y) != "const:64" || prov.Of(c.X) != "phi((↺ + const:1)|const:0)" {
			continue
		}
		// the body writes one 0x20
		body := b.Succs[0]
		n := 0
		for _, in := range body.Instrs {
			if cc, ok := in.(*ssa.Call); ok && prov.CalleeName(&cc.Call) == "(*bytes.Buffer).WriteByte" && prov.Of(cc.Call.Args[1]) == "const:32" {
				n++
			}
		}
		if n == 1 {
			x := e.R.OK("TABLE", key, e.P.InstrPos(ifi), "for i := 0; i < 64; i++ { WriteByte(0x20) }")
			x.Config = cfg.name
			return
		}
	}
	// equivalent idioms: buf.Write(bytes.Repeat([]byte{0x20}, 64)) / buf.WriteString(strings.Repeat(" ", 64))
	for _, b := range ctx.ReachableBlocks(fn) {
		for _, in := range b.Instrs {
			cc, ok := in.(*ssa.Call)
			if !ok || len(cc.Call.Args) != 2 || prov.Of(cc.Call.Args[0]) != "local:buf" {
				continue
			}
			rep, ok := cc.Call.Args[1].(*ssa.Call)
			if !ok || len(rep.Call.Args) != 2 || prov.Of(rep.Call.Args[1]) != "const:64" {
				continue
			}
			okRep := false
			switch prov.CalleeName(&cc.Call) + "<-" + prov.CalleeName(&rep.Call) {
			case "(*bytes.Buffer).Write<-bytes.Repeat":
				okRep = flagOf(rep) == "32" && strings.Contains(prov.Of(rep.Call.Args[0]), "alloc:[1]byte")
			case "(*bytes.Buffer).WriteString<-strings.Repeat":
				okRep = prov.Of(rep.Call.Args[0]) == `const:" "`
			}
			if okRep {
				x := e.R.OK("TABLE", key, e.P.InstrPos(in), "64 bytes 0x20 written with Repeat")
				x.Config = cfg.name
				return
			}
		}
	}
	x := e.R.Fail("TABLE", key, e.P.Pos(fn.Pos()), "the message does not start with a loop writing exactly 64 bytes 0x20")
	x.Config = cfg.name
}

// zeroWrites: number of WriteByte(0) on local:buf reachable under cfg.
func zeroWrites(e *Env, fn *ssa.Function, cfg gcfg, want int) {
	if fn == nil {
		return
	}
	ctx := gate.New(e.P, e.P.VTA(), cfg.assume...)
	n := 0
	for _, b := range ctx.ReachableBlocks(fn) {
		for _, in := range b.Instrs {
			if c, ok := in.(*ssa.Call); ok && prov.CalleeName(&c.Call) == "(*bytes.Buffer).WriteByte" && prov.Of(c.Call.Args[0]) == "local:buf" && prov.Of(c.Call.Args[1]) == "const:0" {
				n++
			}
		}
	}
	key := "signedexchange.serializeSignedMessage:zero-bytes"
	if n == want {
		x := e.R.OK("TABLE", key, e.P.Pos(fn.Pos()), fmt.Sprintf("%d single 0 byte(s) written (separator%s)", n, map[bool]string{true: " and the 'cert-sha256 not set' byte", false: ""}[want == 2]))
		x.Config = cfg.name
	} else {
		x := e.R.Fail("TABLE", key, e.P.Pos(fn.Pos()), fmt.Sprintf("%d single 0 bytes are written, the specification has %d in this configuration (separator, plus one when cert-sha256 is not set)", n, want))
		x.Config = cfg.name
	}
}

// notCertBlock: the instruction's block does not also write cert-sha256 (used
// to tell the 64-space prefix's WriteByte(0x20) from the length byte 32 that
// precedes cert-sha256).
func notCertBlock(in ssa.Instruction) bool {
	for _, i2 := range in.Block().Instrs {
		if c, ok := i2.(*ssa.Call); ok && prov.CalleeName(&c.Call) == "(*bytes.Buffer).Write" && prov.Of(c.Call.Args[1]) == "param:certSha256" {
			return false
		}
	}
	return true
}

// prefixStep: the emission step that writes the 64-space prefix, in the loop
// form or with Repeat.
func prefixStep() gate.Gate {
	return either("64x0x20", "64 bytes 0x20",
		gate.CallInstr("", "(*bytes.Buffer).WriteByte", "local:buf", "const:32").WithInstrIn(notCertBlock),
		gate.CallInstr("", "(*bytes.Buffer).Write", "local:buf", "call:bytes.Repeat(*,const:64)"),
		gate.CallInstr("", "(*bytes.Buffer).WriteString", "local:buf", `call:strings.Repeat(const:" ",const:64)`))
}
