// Package errprop implements E3: every call that hands bytes to a
// destination-derived writer and returns an error must propagate that error:
// returned directly, or tested against nil with the non-nil edge leading only
// to failing returns and to no further destination write.
package errprop

import (
	"fmt"
	"go/token"
	"go/types"
	"sort"

	"golang.org/x/tools/go/callgraph"
	"golang.org/x/tools/go/ssa"

	"wpverif/internal/load"
	"wpverif/internal/prov"
)

type fieldKey struct {
	T types.Type
	F int
}

type Analysis struct {
	P     *load.Program
	CG    *callgraph.Graph
	Scope map[*ssa.Function]bool
	D     map[ssa.Value]bool // destination-derived values
	DF    map[string]bool    // struct fields that hold a destination (Type.field)
	retD  map[*ssa.Function]map[int]bool
	// closure mode (SitesWhere): the error value being followed and the
	// captured cells it was parked in (checked in the parent afterwards)
	curErr   map[ssa.Value]bool
	dfMemo   map[*ssa.Function]int
	cellReqs []cellReq
}

type cellReq struct {
	fn  *ssa.Function
	idx int
}

func New(p *load.Program, cg *callgraph.Graph, scope map[*ssa.Function]bool) *Analysis {
	return &Analysis{P: p, CG: cg, Scope: scope, D: map[ssa.Value]bool{}, DF: map[string]bool{}, retD: map[*ssa.Function]map[int]bool{}}
}

func (a *Analysis) Seed(v ssa.Value) { a.D[v] = true }

func fieldName(x ssa.Value, f int) string {
	t := x.Type()
	if p, ok := t.Underlying().(*types.Pointer); ok {
		t = p.Elem()
	}
	st, ok := t.Underlying().(*types.Struct)
	if !ok {
		return "?"
	}
	return types.TypeString(t, nil) + "." + st.Field(f).Name()
}

// root strips address arithmetic: the object a pointer points into.
func root(v ssa.Value) ssa.Value {
	for {
		switch x := v.(type) {
		case *ssa.FieldAddr:
			v = x.X
		case *ssa.IndexAddr:
			v = x.X
		default:
			return v
		}
	}
}

// ctorParams: if fn is a wrapper constructor — it returns a freshly allocated
// struct into whose fields only parameters/constants are stored — the indices
// of the stored parameters; ok=false otherwise.  Such calls are handled
// context-sensitively: the result is a destination iff a stored argument is.
func ctorParams(fn *ssa.Function) (idx []int, fields []string, ok bool) {
	if fn.Signature.Results().Len() != 1 || len(fn.Blocks) != 1 {
		return nil, nil, false
	}
	ret, isRet := fn.Blocks[0].Instrs[len(fn.Blocks[0].Instrs)-1].(*ssa.Return)
	if !isRet {
		return nil, nil, false
	}
	al, isAlloc := ret.Results[0].(*ssa.Alloc)
	if !isAlloc {
		return nil, nil, false
	}
	for _, ref := range *al.Referrers() {
		switch x := ref.(type) {
		case *ssa.FieldAddr:
			for _, r2 := range *x.Referrers() {
				st, isStore := r2.(*ssa.Store)
				if !isStore || st.Addr != x {
					return nil, nil, false
				}
				switch v := st.Val.(type) {
				case *ssa.Parameter:
					for i, p := range fn.Params {
						if p == v {
							idx = append(idx, i)
							fields = append(fields, fieldName(x.X, x.Field))
						}
					}
				case *ssa.Const:
				default:
					return nil, nil, false
				}
			}
		case *ssa.Return:
		default:
			return nil, nil, false
		}
	}
	return idx, fields, true
}

// Propagate computes D as a least fixpoint over the functions in scope.
func (a *Analysis) Propagate() {
	funcs := make([]*ssa.Function, 0, len(a.Scope))
	for f := range a.Scope {
		funcs = append(funcs, f)
	}
	sort.Slice(funcs, func(i, j int) bool { return load.FuncName(funcs[i]) < load.FuncName(funcs[j]) })
	changed := true
	mark := func(v ssa.Value) {
		if v != nil && !a.D[v] {
			a.D[v] = true
			changed = true
		}
	}
	for changed {
		changed = false
		for _, fn := range funcs {
			for _, b := range fn.Blocks {
				for _, in := range b.Instrs {
					switch x := in.(type) {
					case *ssa.MakeInterface:
						if a.D[x.X] {
							mark(x)
						}
					case *ssa.ChangeInterface:
						if a.D[x.X] {
							mark(x)
						}
					case *ssa.ChangeType:
						if a.D[x.X] {
							mark(x)
						}
					case *ssa.TypeAssert:
						if a.D[x.X] {
							mark(x)
						}
					case *ssa.Extract:
						if ta, ok := x.Tuple.(*ssa.TypeAssert); ok && x.Index == 0 && a.D[ta] {
							mark(x)
						}
						if c, ok := x.Tuple.(*ssa.Call); ok {
							for _, cal := range a.P.ModuleCallees(a.CG, c) {
								if a.retD[cal][x.Index] {
									mark(x)
								}
							}
						}
					case *ssa.Phi:
						for _, e := range x.Edges {
							if a.D[e] {
								mark(x)
							}
						}
					case *ssa.Store:
						if a.D[x.Val] {
							switch ad := x.Addr.(type) {
							case *ssa.FieldAddr:
								k := fieldName(ad.X, ad.Field)
								if !a.DF[k] {
									a.DF[k] = true
									changed = true
								}
								mark(root(ad.X)) // the wrapper object holds a destination
							case *ssa.Alloc:
								mark(ad)
							case *ssa.FreeVar:
								mark(ad)
							}
						}
					case *ssa.UnOp:
						if x.Op != token.MUL {
							break
						}
						switch ad := x.X.(type) {
						case *ssa.FieldAddr:
							if a.DF[fieldName(ad.X, ad.Field)] && a.D[root(ad.X)] {
								mark(x)
							}
						case *ssa.Alloc, *ssa.FreeVar:
							if a.D[ad] {
								mark(x)
							}
						}
					case *ssa.Field:
						if a.DF[fieldName(x.X, x.Field)] && a.D[x.X] {
							mark(x)
						}
					case *ssa.FieldAddr:
						// address of an embedded writer inside a destination wrapper
						if a.D[root(x.X)] && a.DF[fieldName(x.X, x.Field)] {
							mark(x)
						}
					case *ssa.MakeClosure:
						fn2, _ := x.Fn.(*ssa.Function)
						if fn2 == nil {
							break
						}
						for i, bv := range x.Bindings {
							if a.D[bv] && i < len(fn2.FreeVars) {
								mark(fn2.FreeVars[i])
							}
						}
					case *ssa.Return:
						for i, rv := range x.Results {
							if a.D[rv] {
								if a.retD[fn] == nil {
									a.retD[fn] = map[int]bool{}
								}
								if !a.retD[fn][i] {
									a.retD[fn][i] = true
									changed = true
								}
							}
						}
					}
					if ci, ok := in.(ssa.CallInstruction); ok {
						cc := ci.Common()
						var args []ssa.Value
						if cc.IsInvoke() {
							args = append(args, cc.Value)
						}
						args = append(args, cc.Args...)
						// a standard-library wrapper around a destination (bufio.NewWriter(w),
						// io.MultiWriter(w, ...), gzip.NewWriter(w)): what it returns writes to
						// the destination, possibly later (Flush, Close)
						if cv, ok := in.(*ssa.Call); ok && !cc.IsInvoke() {
							if sc := cc.StaticCallee(); sc != nil && !a.P.InModule(sc) && stdlibWriterWrappers[prov.CalleeName(cc)] {
								for _, av := range args {
									if a.D[av] {
										mark(cv)
									}
								}
							}
						}
						for _, cal := range a.P.ModuleCallees(a.CG, ci) {
							if !a.Scope[cal] {
								continue
							}
							if pidx, pfields, isCtor := ctorParams(cal); isCtor {
								for k, i := range pidx {
									if i < len(args) && a.D[args[i]] {
										if cv, ok := in.(*ssa.Call); ok {
											mark(cv)
										}
										if !a.DF[pfields[k]] {
											a.DF[pfields[k]] = true
											changed = true
										}
									}
								}
								continue
							}
							for i, av := range args {
								if a.D[av] && i < len(cal.Params) {
									mark(cal.Params[i])
								}
							}
							if cv, ok := in.(*ssa.Call); ok && a.retD[cal][0] && cal.Signature.Results().Len() == 1 {
								mark(cv)
							}
						}
					}
				}
			}
		}
	}
}

// Site is one destination-write call site with an error result.
type Site struct {
	Fn     *ssa.Function
	Call   ssa.CallInstruction
	Key    string
	Pos    string
	OK     bool
	How    string
	Detail []string
}

func isErrorType(t types.Type) bool {
	return types.Identical(t, types.Universe.Lookup("error").Type())
}

func errIndex(sig *types.Signature) int {
	res := sig.Results()
	for i := res.Len() - 1; i >= 0; i-- {
		if isErrorType(res.At(i).Type()) {
			return i
		}
	}
	return -1
}

// IsDestWrite: the call passes a destination-derived value as receiver or
// argument and returns an error.
func (a *Analysis) IsDestWrite(ci ssa.CallInstruction) bool {
	cc := ci.Common()
	if errIndex(cc.Signature()) < 0 {
		return false
	}
	if cc.IsInvoke() && a.D[cc.Value] {
		return true
	}
	for _, av := range cc.Args {
		if a.D[av] {
			return true
		}
	}
	return false
}

// Sites enumerates and decides the destination writes of the functions in `in`
// (a subset of the scope), in a stable order.
func (a *Analysis) Sites(in map[*ssa.Function]bool) []*Site {
	var funcs []*ssa.Function
	for f := range in {
		funcs = append(funcs, f)
	}
	sort.Slice(funcs, func(i, j int) bool { return load.FuncName(funcs[i]) < load.FuncName(funcs[j]) })
	var out []*Site
	for _, fn := range funcs {
		counter := map[string]int{}
		for _, b := range fn.Blocks {
			for _, ins := range b.Instrs {
				ci, ok := ins.(ssa.CallInstruction)
				if !ok || !a.IsDestWrite(ci) {
					continue
				}
				name := prov.CalleeName(ci.Common())
				counter[name]++
				s := &Site{Fn: fn, Call: ci, Pos: a.P.InstrPos(ins),
					Key: fmt.Sprintf("%s:call#%s#%d", load.FuncName(fn), name, counter[name])}
				a.decide(s)
				out = append(out, s)
			}
		}
	}
	return out
}

// SitesWhere enumerates and decides the calls selected by match (calls that
// return an error but need not be destination writes).  A closure without an
// error result may park the error in a captured variable, provided the
// function that creates the closure examines that variable before it
// returns or starts the next iteration.
func (a *Analysis) SitesWhere(in map[*ssa.Function]bool, match func(fn *ssa.Function, ci ssa.CallInstruction) bool) []*Site {
	var funcs []*ssa.Function
	for f := range in {
		funcs = append(funcs, f)
	}
	sort.Slice(funcs, func(i, j int) bool { return load.FuncName(funcs[i]) < load.FuncName(funcs[j]) })
	var out []*Site
	for _, fn := range funcs {
		counter := map[string]int{}
		for _, b := range fn.Blocks {
			for _, ins := range b.Instrs {
				ci, ok := ins.(ssa.CallInstruction)
				if !ok || errIndex(ci.Common().Signature()) < 0 || !match(fn, ci) {
					continue
				}
				name := prov.CalleeName(ci.Common())
				counter[name]++
				s := &Site{Fn: fn, Call: ci, Pos: a.P.InstrPos(ins),
					Key: fmt.Sprintf("%s:call#%s#%d", load.FuncName(fn), name, counter[name])}
				a.curErr = map[ssa.Value]bool{}
				a.cellReqs = nil
				a.decide(s)
				if s.OK {
					for _, cr := range a.cellReqs {
						if bad := a.cellExaminedInParent(cr.fn, cr.idx); bad != "" {
							s.OK = false
							s.How = "error parked in a captured variable, but " + bad
						} else {
							s.How += "; parked in a captured variable that the enclosing function examines"
						}
					}
				}
				a.curErr = nil
				a.cellReqs = nil
				out = append(out, s)
			}
		}
	}
	return out
}

// DataFallible: fn can return a non-nil error that does not stem from a write
// to a non-module destination (a constructed error, a sentinel, the error of
// a non-writing library call, or the error of a module callee that is itself
// data-fallible).  Writes into in-memory sinks cannot fail, so this is what
// is left to lose when the sink is a buffer.
func (a *Analysis) DataFallible(fn *ssa.Function) bool {
	if a.dfMemo == nil {
		a.dfMemo = map[*ssa.Function]int{}
	}
	switch a.dfMemo[fn] {
	case 1:
		return true
	case 2, 3: // 3 = in progress: assume not (least fixpoint)
		return false
	}
	a.dfMemo[fn] = 3
	res := false
	ridx := errIndex(fn.Signature)
	if ridx < 0 || len(fn.Blocks) == 0 {
		a.dfMemo[fn] = 2
		if len(fn.Blocks) == 0 && ridx >= 0 {
			a.dfMemo[fn] = 1
			return true
		}
		return false
	}
	var src func(v ssa.Value, seen map[ssa.Value]bool) bool
	src = func(v ssa.Value, seen map[ssa.Value]bool) bool {
		if seen[v] {
			return false
		}
		seen[v] = true
		switch x := v.(type) {
		case *ssa.Const:
			return false
		case *ssa.Phi:
			for _, e := range x.Edges {
				if src(e, seen) {
					return true
				}
			}
			return false
		case *ssa.Extract:
			return src(x.Tuple, seen)
		case *ssa.Call:
			if callee := x.Call.StaticCallee(); callee != nil && a.P.InModule(callee) {
				return a.DataFallible(callee)
			}
			if a.IsDestWrite(x) {
				return false
			}
			return true
		}
		return true
	}
	for _, b := range fn.Blocks {
		if r, ok := b.Instrs[len(b.Instrs)-1].(*ssa.Return); ok && ridx < len(r.Results) {
			if src(r.Results[ridx], map[ssa.Value]bool{}) {
				res = true
			}
		}
	}
	if res {
		a.dfMemo[fn] = 1
	} else {
		a.dfMemo[fn] = 2
	}
	return res
}

// cellAddr: the captured variable (free variable of a closure) a store goes to.
func freeVarIndex(fn *ssa.Function, addr ssa.Value) int {
	for i, fv := range fn.FreeVars {
		if ssa.Value(fv) == addr {
			return i
		}
	}
	return -1
}

// parkedBefore: a store of the followed error into a captured variable of fn
// whose block dominates b.
func (a *Analysis) parkedBefore(fn *ssa.Function, b *ssa.BasicBlock) int {
	for _, bb := range fn.Blocks {
		if bb != b && !bb.Dominates(b) {
			continue
		}
		for _, in := range bb.Instrs {
			if st, ok := in.(*ssa.Store); ok && a.curErr[st.Val] {
				if i := freeVarIndex(fn, st.Addr); i >= 0 {
					return i
				}
			}
		}
	}
	return -1
}

// cellExaminedInParent: in the function that creates closure fn, every path
// from the creation of the closure to a return (or back to the creation)
// passes a nil test of the captured variable whose failing edge fails.
func (a *Analysis) cellExaminedInParent(fn *ssa.Function, idx int) string {
	parent := fn.Parent()
	if parent == nil {
		return "the function is not a closure"
	}
	found := false
	for _, b := range parent.Blocks {
		for i, in := range b.Instrs {
			mc, ok := in.(*ssa.MakeClosure)
			if !ok || mc.Fn != ssa.Value(fn) || idx >= len(mc.Bindings) {
				continue
			}
			found = true
			cell := mc.Bindings[idx]
			isTest := func(ifi *ssa.If) (bool, *ssa.BasicBlock) {
				bo, ok := ifi.Cond.(*ssa.BinOp)
				if !ok || (bo.Op != token.NEQ && bo.Op != token.EQL) {
					return false, nil
				}
				ld := bo.X
				if isNil(bo.X) {
					ld = bo.Y
				} else if !isNil(bo.Y) {
					return false, nil
				}
				u, ok := ld.(*ssa.UnOp)
				if !ok || u.Op != token.MUL || u.X != cell {
					return false, nil
				}
				nonNil := ifi.Block().Succs[0]
				if bo.Op == token.EQL {
					nonNil = ifi.Block().Succs[1]
				}
				return true, nonNil
			}
			type item struct {
				b    *ssa.BasicBlock
				from int
			}
			seen := map[*ssa.BasicBlock]bool{}
			stack := []item{{b, i + 1}}
			for len(stack) > 0 {
				it := stack[len(stack)-1]
				stack = stack[:len(stack)-1]
				done := false
				for j := it.from; j < len(it.b.Instrs) && !done; j++ {
					switch x := it.b.Instrs[j].(type) {
					case *ssa.If:
						if ok, nonNil := isTest(x); ok {
							save := a.curErr
							a.curErr = nil
							bad := a.failsOnly(parent, nonNil, x.Block())
							a.curErr = save
							if bad != "" {
								return "the enclosing function tests it and the failing edge " + bad
							}
							done = true
						}
					case *ssa.Return:
						return fmt.Sprintf("the enclosing function returns at %s without examining it", a.P.InstrPos(x))
					case *ssa.Panic:
						done = true
					case *ssa.MakeClosure:
						if x == mc {
							return fmt.Sprintf("the next closure is created at %s before it is examined", a.P.InstrPos(x))
						}
					}
				}
				if done {
					continue
				}
				for _, s := range it.b.Succs {
					if !seen[s] {
						seen[s] = true
						stack = append(stack, item{s, 0})
					}
				}
			}
		}
	}
	if !found {
		return "the closure's creation site was not found"
	}
	return ""
}

func (a *Analysis) decide(s *Site) {
	call, ok := s.Call.(*ssa.Call)
	if !ok {
		s.How = "destination write in defer/go: its error cannot be observed"
		return
	}
	idx := errIndex(call.Call.Signature())
	var ev ssa.Value
	if call.Call.Signature().Results().Len() == 1 {
		ev = call
	} else {
		for _, ref := range *call.Referrers() {
			if ex, ok := ref.(*ssa.Extract); ok && ex.Index == idx {
				ev = ex
			}
		}
	}
	if ev == nil || len(*ev.Referrers()) == 0 {
		s.How = "error result is discarded"
		return
	}
	v, how := a.follow(s.Fn, ev, map[ssa.Value]bool{})
	if v == 1 {
		// the propagating use must lie on every path from the call: before any
		// other return or destination write the error is tested or returned
		if bad := a.examinedOnAllPaths(s.Fn, call, ev); bad != "" {
			v, how = 2, bad
		}
	}
	switch v {
	case 1:
		s.OK = true
		s.How = how
	case 2:
		s.How = how
	default:
		s.How = "error result is neither returned nor tested against nil"
	}
}

// follow inspects the uses of error value ev: 0 = no propagating use,
// 1 = propagated, 2 = tested but mishandled.
func (a *Analysis) follow(fn *ssa.Function, ev ssa.Value, seen map[ssa.Value]bool) (int, string) {
	if seen[ev] {
		return 0, ""
	}
	seen[ev] = true
	if a.curErr != nil {
		a.curErr[ev] = true
	}
	ridx := errIndex(fn.Signature)
	tested, returned := false, false
	for _, ref := range *ev.Referrers() {
		switch x := ref.(type) {
		case *ssa.Store:
			// the error is assigned to a variable that lives in memory (captured
			// by a closure): the loads that follow in the same block, up to the
			// next store to it, are the same value
			if a.curErr == nil || x.Val != ev {
				continue
			}
			after := false
			for _, in := range x.Block().Instrs {
				if in == ssa.Instruction(x) {
					after = true
					continue
				}
				if !after {
					continue
				}
				if st2, ok := in.(*ssa.Store); ok && st2.Addr == x.Addr {
					break
				}
				if u, ok := in.(*ssa.UnOp); ok && u.Op == token.MUL && u.X == x.Addr {
					v, how := a.follow(fn, u, seen)
					if v == 2 {
						return 2, how
					}
					if v == 1 {
						tested = true
					}
				}
			}
		case *ssa.Return:
			if ridx >= 0 && ridx < len(x.Results) && x.Results[ridx] == ev {
				returned = true
			}
		case *ssa.BinOp:
			if (x.Op == token.NEQ || x.Op == token.EQL) && (isNil(x.X) || isNil(x.Y)) {
				for _, r2 := range *x.Referrers() {
					ifi, ok := r2.(*ssa.If)
					if !ok {
						continue
					}
					tested = true
					nonNil := ifi.Block().Succs[0]
					if x.Op == token.EQL {
						nonNil = ifi.Block().Succs[1]
					}
					if bad := a.failsOnly(fn, nonNil, ifi.Block()); bad != "" {
						return 2, "error tested, but the failing edge " + bad
					}
				}
			}
		case *ssa.Phi:
			v, how := a.follow(fn, x, seen)
			if v == 2 {
				return 2, how
			}
			if v == 1 {
				returned = true
			}
		}
	}
	if tested {
		return 1, "tested against nil; failing edge reaches only failing returns, no further destination write"
	}
	if returned {
		return 1, "returned directly"
	}
	return 0, ""
}

func isNil(v ssa.Value) bool {
	c, ok := v.(*ssa.Const)
	return ok && c.Value == nil
}

// failsOnly explores from block `from`: every path must end in a Return whose
// error operand is not the nil constant (or in a panic) without performing a
// destination write.  Returns "" if so, else a description of the offence.
func (a *Analysis) failsOnly(fn *ssa.Function, from, origin *ssa.BasicBlock) string {
	ridx := errIndex(fn.Signature)
	seen := map[*ssa.BasicBlock]bool{}
	type item struct {
		b    *ssa.BasicBlock
		pred *ssa.BasicBlock
	}
	stack := []item{{from, origin}}
	for len(stack) > 0 {
		it := stack[len(stack)-1]
		stack = stack[:len(stack)-1]
		b := it.b
		if seen[b] {
			continue
		}
		seen[b] = true
		for _, in := range b.Instrs {
			if ci, ok := in.(ssa.CallInstruction); ok && a.IsDestWrite(ci) {
				return fmt.Sprintf("performs another destination write (%s at %s)", prov.CalleeName(ci.Common()), a.P.InstrPos(in))
			}
		}
		switch t := b.Instrs[len(b.Instrs)-1].(type) {
		case *ssa.Return:
			if ridx < 0 {
				if a.curErr != nil && fn.Parent() != nil {
					if i := a.parkedBefore(fn, b); i >= 0 {
						a.cellReqs = append(a.cellReqs, cellReq{fn, i})
						continue
					}
				}
				return fmt.Sprintf("returns from a function without error result at %s", a.P.InstrPos(t))
			}
			v := t.Results[ridx]
			if p, ok := v.(*ssa.Phi); ok && p.Block() == b {
				for i, pb := range b.Preds {
					if pb == it.pred {
						v = p.Edges[i]
					}
				}
			}
			if isNil(v) {
				return fmt.Sprintf("reaches 'return …, nil' at %s", a.P.InstrPos(t))
			}
			// a variable that was tested to be nil on the way here (an outer err
			// shadowed by the one that failed) is a nil return as well
			if knownNilAt(v, b) {
				return fmt.Sprintf("reaches a return of an error value known to be nil at %s", a.P.InstrPos(t))
			}
		case *ssa.Panic:
		default:
			for _, s := range b.Succs {
				stack = append(stack, item{s, b})
			}
		}
	}
	return ""
}

// examinedOnAllPaths: on every path from the call, the error value ev (or a
// phi it flows into) is nil-tested by a branch or returned as the error result
// before the function returns something else or writes to the destination again.
func (a *Analysis) examinedOnAllPaths(fn *ssa.Function, call *ssa.Call, ev ssa.Value) string {
	ridx := errIndex(fn.Signature)
	carriers := map[ssa.Value]bool{ev: true}
	for v := range a.curErr {
		carriers[v] = true
	}
	// phis fed by ev
	changed := true
	for changed {
		changed = false
		for c := range carriers {
			for _, ref := range *c.Referrers() {
				if ph, ok := ref.(*ssa.Phi); ok && !carriers[ph] {
					carriers[ph] = true
					changed = true
				}
			}
		}
	}
	tests := func(ifi *ssa.If) bool {
		bo, ok := ifi.Cond.(*ssa.BinOp)
		if !ok {
			return false
		}
		return (carriers[bo.X] && isNil(bo.Y)) || (carriers[bo.Y] && isNil(bo.X))
	}
	type item struct {
		b    *ssa.BasicBlock
		from int
	}
	start := -1
	for i, in := range call.Block().Instrs {
		if in == ssa.Instruction(call) {
			start = i + 1
		}
	}
	seen := map[*ssa.BasicBlock]bool{}
	stack := []item{{call.Block(), start}}
	for len(stack) > 0 {
		it := stack[len(stack)-1]
		stack = stack[:len(stack)-1]
		done := false
		for i := it.from; i < len(it.b.Instrs) && !done; i++ {
			switch x := it.b.Instrs[i].(type) {
			case *ssa.If:
				if tests(x) {
					done = true
				}
			case *ssa.Return:
				if ridx >= 0 && ridx < len(x.Results) && carriers[x.Results[ridx]] {
					done = true
				} else {
					return fmt.Sprintf("error is not examined on the path that returns at %s", a.P.InstrPos(x))
				}
			case *ssa.Panic:
				done = true
			case ssa.CallInstruction:
				if x != ssa.CallInstruction(call) && a.IsDestWrite(x) {
					return fmt.Sprintf("error is not examined before the next destination write at %s", a.P.InstrPos(x))
				}
			}
		}
		if done {
			continue
		}
		for _, s := range it.b.Succs {
			if !seen[s] {
				seen[s] = true
				stack = append(stack, item{s, 0})
			}
		}
	}
	return ""
}

// stdlibWriterWrappers: constructors whose result forwards writes to the
// writer passed in.
var stdlibWriterWrappers = map[string]bool{
	"bufio.NewWriter": true, "bufio.NewWriterSize": true, "bufio.NewReadWriter": true,
	"io.MultiWriter": true, "gzip.NewWriter": true, "gzip.NewWriterLevel": true,
	"zlib.NewWriter": true, "flate.NewWriter": true, "hex.NewEncoder": true, "base64.NewEncoder": true,
}

// knownNilAt: every path to block b passed the "v == nil" side of a branch on
// v (dominator chain).
func knownNilAt(v ssa.Value, b *ssa.BasicBlock) bool {
	for d := b; d != nil; d = d.Idom() {
		id := d.Idom()
		if id == nil {
			break
		}
		ifi, ok := id.Instrs[len(id.Instrs)-1].(*ssa.If)
		if !ok {
			continue
		}
		bo, ok := ifi.Cond.(*ssa.BinOp)
		if !ok || !((bo.X == v && isNil(bo.Y)) || (bo.Y == v && isNil(bo.X))) {
			continue
		}
		// which side of the branch dominates d?
		var nilSide *ssa.BasicBlock
		switch bo.Op {
		case token.EQL:
			nilSide = id.Succs[0]
		case token.NEQ:
			nilSide = id.Succs[1]
		default:
			continue
		}
		other := id.Succs[0]
		if other == nilSide {
			other = id.Succs[1]
		}
		if nilSide.Dominates(b) && !other.Dominates(b) && len(nilSide.Preds) == 1 {
			return true
		}
	}
	return false
}
