// Package flow answers "does value v flow (by value, through slices, appends,
// wrapper calls and phis) into an argument of a given call?" — a forward
// def-use walk used by the coverage ("must-use") rules.
package flow

import (
	"strings"

	"golang.org/x/tools/go/ssa"

	"wpverif/internal/prov"
)

// Target is asked for every call instruction the value reaches as argument i.
type Target func(call ssa.CallInstruction, argIndex int) bool

// Reaches reports whether v flows into a call accepted by target.
func Reaches(v ssa.Value, target Target) bool {
	return walk(v, target, map[ssa.Value]bool{}, 0)
}

func walk(v ssa.Value, target Target, seen map[ssa.Value]bool, depth int) bool {
	if v == nil || seen[v] || depth > 30 {
		return false
	}
	seen[v] = true
	refs := v.Referrers()
	if refs == nil {
		return false
	}
	for _, ref := range *refs {
		switch x := ref.(type) {
		case *ssa.Store:
			if x.Val == v {
				// stored into an element/field of an object: the object carries it
				if walk(rootOf(x.Addr), target, seen, depth+1) {
					return true
				}
			}
		case *ssa.Slice:
			// only the full slice of a literal array keeps every element
			if x.Low == nil && x.High == nil && walk(x, target, seen, depth+1) {
				return true
			}
		case *ssa.Phi:
			if walk(x, target, seen, depth+1) {
				return true
			}
		case *ssa.MakeInterface:
			if walk(x, target, seen, depth+1) {
				return true
			}
		case *ssa.ChangeType:
			if walk(x, target, seen, depth+1) {
				return true
			}
		case *ssa.Convert:
			if walk(x, target, seen, depth+1) {
				return true
			}
		case *ssa.UnOp:
			if walk(x, target, seen, depth+1) {
				return true
			}
		case *ssa.Extract:
			if walk(x, target, seen, depth+1) {
				return true
			}
		case *ssa.MakeClosure:
			// captured: the closure carries it
			if walk(x, target, seen, depth+1) {
				return true
			}
		case ssa.CallInstruction:
			cc := x.Common()
			var args []ssa.Value
			if cc.IsInvoke() {
				args = append(args, cc.Value)
			}
			args = append(args, cc.Args...)
			for i, a := range args {
				if a != v {
					continue
				}
				if target(x, i) {
					return true
				}
				cv, isVal := x.(*ssa.Call)
				if !isVal {
					continue
				}
				name := prov.CalleeName(cc)
				switch {
				case name == "builtin:append":
					if walk(cv, target, seen, depth+1) {
						return true
					}
				case name == "cbor.GenerateMapEntry":
					// the entry is built by running the closure
					if walk(cv, target, seen, depth+1) {
						return true
					}
				default:
					// pass-through wrapper: a module function returning (something derived from) its parameter i
					if sc := cc.StaticCallee(); sc != nil && sc.Blocks != nil && i < len(sc.Params) {
						pn := "param:" + sc.Params[i].Name()
						for _, b := range sc.Blocks {
							if r, ok := b.Instrs[len(b.Instrs)-1].(*ssa.Return); ok {
								for _, rv := range r.Results {
									if strings.Contains(prov.Of(rv), pn) {
										if walk(cv, target, seen, depth+1) {
											return true
										}
									}
								}
							}
						}
					}
				}
			}
		}
	}
	return false
}

func rootOf(v ssa.Value) ssa.Value {
	for {
		switch x := v.(type) {
		case *ssa.FieldAddr:
			v = x.X
		case *ssa.IndexAddr:
			v = x.X
		default:
			return v
		}
	}
}
