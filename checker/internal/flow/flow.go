// Package flow answers "does value v flow (by value, through slices, appends,
// wrapper calls and phis) into an argument of a given call?" — a forward
// def-use walk used by the coverage ("must-use") rules.
package flow

import (
	"strings"

	"golang.org/x/tools/go/ssa"

	"wpverif/internal/prov"
)

// Target is asked for every call instruction the value reaches as argument i.
type Target func(call ssa.CallInstruction, argIndex int) bool

type walker struct {
	target    Target
	seen      map[ssa.Value]bool
	reached   bool
	truncated bool
}

// Reaches reports whether v flows into a call accepted by target, and not also
// through a re-slicing (s[lo:hi]) of a carrier that itself reaches the target:
// such a truncation may drop the value on some path, so the flow is not
// accepted as certain (fails closed).
func Reaches(v ssa.Value, target Target) bool {
	w := &walker{target: target, seen: map[ssa.Value]bool{}}
	w.walk(v, 0, false)
	return w.reached && !w.truncated
}

// walk explores every use of v (no early exit); cut = a truncating slice lies
// between the source and v.
func (w *walker) walk(v ssa.Value, depth int, cut bool) {
	if v == nil || depth > 40 {
		return
	}
	if w.seen[v] {
		return
	}
	w.seen[v] = true
	refs := v.Referrers()
	if refs == nil {
		return
	}
	for _, ref := range *refs {
		switch x := ref.(type) {
		case *ssa.Store:
			if x.Val == v {
				w.walk(rootOf(x.Addr), depth+1, cut)
			}
		case *ssa.Slice:
			if x.X != v {
				continue
			}
			if x.Low == nil && x.High == nil {
				w.walk(x, depth+1, cut)
			} else {
				sub := &walker{target: w.target, seen: map[ssa.Value]bool{}}
				sub.walk(x, depth+1, false)
				if sub.reached {
					w.truncated = true
				}
			}
		case *ssa.Phi:
			w.walk(x, depth+1, cut)
		case *ssa.MakeInterface:
			w.walk(x, depth+1, cut)
		case *ssa.ChangeType:
			w.walk(x, depth+1, cut)
		case *ssa.Convert:
			w.walk(x, depth+1, cut)
		case *ssa.UnOp:
			w.walk(x, depth+1, cut)
		case *ssa.Extract:
			w.walk(x, depth+1, cut)
		case *ssa.MakeClosure:
			w.walk(x, depth+1, cut)
		case ssa.CallInstruction:
			cc := x.Common()
			var args []ssa.Value
			if cc.IsInvoke() {
				args = append(args, cc.Value)
			}
			args = append(args, cc.Args...)
			for i, a := range args {
				if a != v {
					continue
				}
				if w.target(x, i) {
					w.reached = true
				}
				cv, isVal := x.(*ssa.Call)
				if !isVal {
					continue
				}
				name := prov.CalleeName(cc)
				switch {
				case name == "builtin:append":
					w.walk(cv, depth+1, cut)
				case name == "cbor.GenerateMapEntry":
					// the entry is built by running the closure
					w.walk(cv, depth+1, cut)
				default:
					// pass-through wrapper: a module function returning (something derived from) its parameter i
					if sc := cc.StaticCallee(); sc != nil && sc.Blocks != nil && i < len(sc.Params) {
						pn := prov.Of(sc.Params[i])
						through := false
						for _, b := range sc.Blocks {
							if r, ok := b.Instrs[len(b.Instrs)-1].(*ssa.Return); ok {
								for _, rv := range r.Results {
									if strings.Contains(prov.Of(rv), pn) {
										through = true
									}
								}
							}
						}
						if through {
							w.walk(cv, depth+1, cut)
						}
					}
				}
			}
		}
	}
}

func rootOf(v ssa.Value) ssa.Value {
	for {
		switch x := v.(type) {
		case *ssa.FieldAddr:
			v = x.X
		case *ssa.IndexAddr:
			v = x.X
		default:
			return v
		}
	}
}
