// Package core holds the obligation bookkeeping shared by all engines: the
// report of one check run, floors, known-findings matching, evidence and
// replay files, and the exit protocol (VIOLATION / KNOWN-FINDING lines).
package core

import (
	"bufio"
	"encoding/json"
	"fmt"
	"os"
	"path/filepath"
	"sort"
	"strconv"
	"strings"
	"time"
)

type Status string

const (
	Discharged Status = "discharged"
	Violated   Status = "violated"
	Undecided  Status = "undecided"
)

// Obligation is one rule instance.  Key is stable across edits that do not
// touch the construct: rule : function : construct (never a line number).
type Obligation struct {
	Rule       string   `json:"rule"`
	Key        string   `json:"key"`
	Pos        string   `json:"pos"`
	Status     Status   `json:"status"`
	How        string   `json:"how,omitempty"`     // how it was discharged / why it fails
	Witness    []string `json:"witness,omitempty"` // offending path, missing gate, ...
	NonTrivial bool     `json:"nontrivial"`        // involved at least one branch or call-graph step
	Config     string   `json:"config,omitempty"`  // e.g. version=1b3, GOARCH=386
}

type Report struct {
	Prop        string
	Tier        string
	Seed        int
	Start       time.Time
	Explanation string
	RuleText    string
	Obls        []*Obligation
	Info        []string          // informational findings outside the property's quantifier
	Counts      map[string]int    // analysed-unit counts (functions, call-graph nodes, ...)
	Floors      map[string][2]int // rule -> {floor, measured}
	Trusted     []string
	Assumptions []string
	Extra       map[string]any
	floorFail   []string
	// SelfTest collects failures of the checker's own sensitivity test
	// (thorough tier): the checker is broken, not the property (exit 2).
	SelfTest []string
}

func NewReport(prop, tier string) *Report {
	seed := 0
	if s := os.Getenv("VERIF_SEED"); s != "" {
		if n, err := strconv.Atoi(s); err == nil {
			seed = n
		}
	}
	return &Report{Prop: prop, Tier: tier, Seed: seed, Start: time.Now(),
		Counts: map[string]int{}, Floors: map[string][2]int{}, Extra: map[string]any{}}
}

func (r *Report) Add(o *Obligation) *Obligation {
	r.Obls = append(r.Obls, o)
	return o
}

// OK records a discharged obligation.
func (r *Report) OK(rule, key, pos, how string) *Obligation {
	return r.Add(&Obligation{Rule: rule, Key: rule + ":" + key, Pos: pos, Status: Discharged, How: how, NonTrivial: true})
}

// Fail records a violated obligation.
func (r *Report) Fail(rule, key, pos, why string, witness ...string) *Obligation {
	return r.Add(&Obligation{Rule: rule, Key: rule + ":" + key, Pos: pos, Status: Violated, How: why, Witness: witness, NonTrivial: true})
}

// Undecided records an obligation the engine could not decide (fails closed).
func (r *Report) Undecided(rule, key, pos, why string, witness ...string) *Obligation {
	return r.Add(&Obligation{Rule: rule, Key: rule + ":" + key, Pos: pos, Status: Undecided, How: why, Witness: witness, NonTrivial: true})
}

func (r *Report) Infof(format string, a ...any) { r.Info = append(r.Info, fmt.Sprintf(format, a...)) }

// Floor asserts that the rule still matches about as many instances as were
// confirmed by hand on the tree the tables were written against (n): a rule
// that silently matches (almost) nothing passes vacuously.  A quarter of
// slack is left for refactorings that merge instances (two writes moved into
// one helper, two loops into one).
func (r *Report) Floor(rule string, n int) {
	if n > 1 {
		n = (n*3 + 3) / 4
	}
	c := 0
	for _, o := range r.Obls {
		if o.Rule == rule {
			c++
		}
	}
	r.Floors[rule] = [2]int{n, c}
	if c < n {
		r.floorFail = append(r.floorFail, fmt.Sprintf("rule %s matched %d instances, floor is %d", rule, c, n))
	}
}

// KnownFinding is one line of /verif/known_findings.txt.
type KnownFinding struct {
	Fixed bool
	Prop  string
	Key   string // for findings: the obligation key
	Text  string
}

func LoadKnownFindings(path string) ([]KnownFinding, error) {
	f, err := os.Open(path)
	if err != nil {
		if os.IsNotExist(err) {
			return nil, nil
		}
		return nil, err
	}
	defer f.Close()
	var out []KnownFinding
	sc := bufio.NewScanner(f)
	for sc.Scan() {
		line := strings.TrimSpace(sc.Text())
		if line == "" || strings.HasPrefix(line, "#") {
			continue
		}
		kf := KnownFinding{Text: line}
		switch {
		case strings.HasPrefix(line, "fixed:"):
			kf.Fixed = true
		case strings.HasPrefix(line, "finding:"):
		default:
			return nil, fmt.Errorf("known_findings: unrecognised line %q", line)
		}
		for _, tok := range strings.Fields(line) {
			if strings.HasPrefix(tok, "property=") {
				kf.Prop = strings.TrimPrefix(tok, "property=")
			}
			if strings.HasPrefix(tok, "key=") {
				kf.Key = strings.TrimPrefix(tok, "key=")
			}
		}
		if kf.Prop == "" || (!kf.Fixed && kf.Key == "") {
			return nil, fmt.Errorf("known_findings: line lacks property=/key=: %q", line)
		}
		out = append(out, kf)
	}
	return out, sc.Err()
}

type evidenceFile struct {
	PropertyID  string         `json:"property_id"`
	Tier        string         `json:"tier"`
	Seed        int            `json:"seed"`
	Level       string         `json:"level"`
	Coverage    map[string]any `json:"coverage"`
	Assumptions []string       `json:"assumptions"`
	WallS       float64        `json:"wall_s"`
	Violations  int            `json:"violations"`
}

// Finish matches known findings, writes the evidence file and replay files,
// prints the protocol lines and returns the process exit code.
func (r *Report) Finish(verifDir string) int {
	known, err := LoadKnownFindings(filepath.Join(verifDir, "known_findings.txt"))
	if err != nil {
		fmt.Fprintln(os.Stderr, "INFRA:", err)
		return 2
	}
	knownKeys := map[string]KnownFinding{}
	for _, k := range known {
		if !k.Fixed && k.Prop == r.Prop {
			knownKeys[k.Key] = k
		}
	}
	sort.SliceStable(r.Obls, func(i, j int) bool { return r.Obls[i].Key < r.Obls[j].Key })

	var bad, knownHit []*Obligation
	discharged := 0
	distinct := map[string]bool{}
	for _, o := range r.Obls {
		switch o.Status {
		case Discharged:
			discharged++
		default:
			if _, ok := knownKeys[o.Key]; ok {
				knownHit = append(knownHit, o)
			} else {
				bad = append(bad, o)
			}
		}
		if o.NonTrivial {
			distinct[o.Key+"|"+o.Config] = true
		}
	}

	if os.Getenv("WPVERIF_DEBUG") != "" {
		for _, o := range r.Obls {
			fmt.Printf("  [%s] %s (%s) %s -- %s\n", o.Status, o.Key, o.Config, o.Pos, o.How)
		}
	}
	violDir := filepath.Join(verifDir, "evidence", "violations")
	// stale replay files of this property are removed on every run
	if old, _ := filepath.Glob(filepath.Join(violDir, r.Prop+"-*.json")); len(old) > 0 {
		for _, f := range old {
			os.Remove(f)
		}
	}
	var violLines []string
	if len(bad) > 0 || len(r.floorFail) > 0 {
		os.MkdirAll(violDir, 0o755)
	}
	n := 0
	writeReplay := func(payload map[string]any) string {
		n++
		path := filepath.Join(violDir, fmt.Sprintf("%s-%d.json", r.Prop, n))
		b, _ := json.MarshalIndent(payload, "", " ")
		os.WriteFile(path, append(b, '\n'), 0o644)
		return path
	}
	for _, o := range bad {
		kind := "violation"
		if o.Status == Undecided {
			kind = "undecided"
		}
		path := writeReplay(map[string]any{"property": r.Prop, "kind": kind, "rule": o.Rule, "key": o.Key,
			"pos": o.Pos, "config": o.Config, "why": o.How, "witness": o.Witness})
		fmt.Printf("%s rule=%s key=%s at %s: %s\n", strings.ToUpper(kind), o.Rule, o.Key, o.Pos, o.How)
		for _, w := range o.Witness {
			fmt.Printf("    %s\n", w)
		}
		violLines = append(violLines, fmt.Sprintf("VIOLATION property=%s replay=%s", r.Prop, path))
	}
	for _, ff := range r.floorFail {
		path := writeReplay(map[string]any{"property": r.Prop, "kind": "undecided", "rule": "FLOOR", "key": "FLOOR:" + ff, "why": ff})
		fmt.Printf("UNDECIDED rule=FLOOR %s\n", ff)
		violLines = append(violLines, fmt.Sprintf("VIOLATION property=%s replay=%s", r.Prop, path))
	}
	for _, o := range knownHit {
		fmt.Printf("KNOWN-FINDING: property=%s %s (%s at %s)\n", r.Prop, o.Key, o.How, o.Pos)
	}

	// samples: a spread of actual obligations
	var samples []any
	step := 1
	if len(r.Obls) > 12 {
		step = len(r.Obls) / 12
	}
	for i := 0; i < len(r.Obls); i += step {
		o := r.Obls[i]
		samples = append(samples, map[string]any{"key": o.Key, "pos": o.Pos, "status": o.Status, "how": o.How, "config": o.Config})
	}
	for _, o := range bad {
		samples = append(samples, map[string]any{"key": o.Key, "pos": o.Pos, "status": o.Status, "how": o.How, "witness": o.Witness})
	}
	floors := map[string]any{}
	for k, v := range r.Floors {
		floors[k] = map[string]int{"floor": v[0], "measured": v[1]}
	}
	perRule := map[string]int{}
	for _, o := range r.Obls {
		perRule[o.Rule]++
	}
	cov := map[string]any{
		"explanation":         r.Explanation,
		"rule":                r.RuleText,
		"obligations":         len(r.Obls),
		"discharged":          discharged,
		"evaluations":         len(r.Obls),
		"distinct_nontrivial": len(distinct),
		"samples":             samples,
		"per_rule":            perRule,
		"floors":              floors,
		"analysed":            r.Counts,
		"trusted_base":        r.Trusted,
		"informational":       r.Info,
		"known_findings_hit":  len(knownHit),
		"checker_cmd":         fmt.Sprintf("./bin/wpverif -prop %s -tier %s", r.Prop, r.Tier),
	}
	for k, v := range r.Extra {
		cov[k] = v
	}
	ev := evidenceFile{PropertyID: r.Prop, Tier: r.Tier, Seed: r.Seed, Level: "other", Coverage: cov,
		Assumptions: r.Assumptions, WallS: time.Since(r.Start).Seconds(), Violations: len(violLines)}
	if ev.Assumptions == nil {
		ev.Assumptions = []string{}
	}
	b, _ := json.MarshalIndent(ev, "", " ")
	os.MkdirAll(filepath.Join(verifDir, "evidence"), 0o755)
	if err := os.WriteFile(filepath.Join(verifDir, "evidence", r.Prop+".json"), append(b, '\n'), 0o644); err != nil {
		fmt.Fprintln(os.Stderr, "INFRA: cannot write evidence:", err)
		return 2
	}
	fmt.Printf("%s tier=%s: %d obligations, %d discharged, %d known findings, %d undischarged; %.1fs\n",
		r.Prop, r.Tier, len(r.Obls), discharged, len(knownHit), len(bad)+len(r.floorFail), ev.WallS)
	for _, l := range violLines {
		fmt.Println(l)
	}
	if len(violLines) > 0 {
		return 1
	}
	if len(r.SelfTest) > 0 {
		for _, s := range r.SelfTest {
			fmt.Println("SELFTEST-FAILED", s)
		}
		return 2
	}
	return 0
}
