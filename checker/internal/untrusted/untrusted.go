// Package untrusted implements E6: integers declared by the input (decoded
// CBOR heads, big-endian length fields) must be range-checked before they are
// used as a slice bound, an allocation size, a count argument, a loop bound, or
// converted to a signed type.
package untrusted

import (
	"fmt"
	"go/constant"
	"go/token"
	"go/types"
	"math"
	"sort"
	"strings"

	"golang.org/x/tools/go/callgraph"
	"golang.org/x/tools/go/ssa"

	"wpverif/internal/gate"
	"wpverif/internal/load"
	"wpverif/internal/prov"
)

// ---------------------------------------------------------------- taint

type Analysis struct {
	P      *load.Program
	CG     *callgraph.Graph
	Scope  map[*ssa.Function]bool
	Sizes  types.Sizes
	T      map[ssa.Value]bool // tainted values
	FT     map[string]bool    // tainted struct fields "Type.field"
	retT   map[*ssa.Function]map[int]bool
	ptrT   map[ssa.Value]bool // allocs written by binary.Read
	Source map[string]int     // source kind -> number of source sites seen
}

func New(p *load.Program, cg *callgraph.Graph, scope map[*ssa.Function]bool) *Analysis {
	return &Analysis{P: p, CG: cg, Scope: scope, Sizes: p.Sizes, T: map[ssa.Value]bool{}, FT: map[string]bool{},
		retT: map[*ssa.Function]map[int]bool{}, ptrT: map[ssa.Value]bool{}, Source: map[string]int{}}
}

// intrinsic sources: resolved callee -> tainted result index
var sourceCalls = map[string]int{
	"(*cbor.Decoder).decodeTypedUint": 1,
	"cbor.getUnsignedIntegerValue":    0,
	"(binary.bigEndian).Uint16":       0,
	"(binary.bigEndian).Uint32":       0,
	"(binary.bigEndian).Uint64":       0,
	"(binary.littleEndian).Uint16":    0,
	"(binary.littleEndian).Uint32":    0,
	"(binary.littleEndian).Uint64":    0,
	"bigendian.Decode3BytesUint":      0,
	"invoke:binary.ByteOrder.Uint16":  0,
	"invoke:binary.ByteOrder.Uint32":  0,
	"invoke:binary.ByteOrder.Uint64":  0,
	// the number of bytes a read delivered depends on the input (a short
	// file): at most len(buf), but possibly less than a constant the code goes
	// on to use as a lower slice bound
	"io.ReadFull":           0,
	"io.ReadAtLeast":        0,
	"invoke:io.Reader.Read": 0,
	"(*os.File).Read":       0,
	"(*bytes.Buffer).Read":  0,
}

func isInteger(t types.Type) bool {
	b, ok := t.Underlying().(*types.Basic)
	return ok && b.Info()&types.IsInteger != 0
}

func fieldKey(x ssa.Value, f int) string {
	t := x.Type()
	if p, ok := t.Underlying().(*types.Pointer); ok {
		t = p.Elem()
	}
	st, ok := t.Underlying().(*types.Struct)
	if !ok {
		return "?"
	}
	return types.TypeString(t, nil) + "." + st.Field(f).Name()
}

func (a *Analysis) Propagate() {
	funcs := sortedFuncs(a.Scope)
	changed := true
	mark := func(v ssa.Value) {
		if v != nil && !a.T[v] && (isInteger(v.Type()) || isTuple(v.Type())) {
			a.T[v] = true
			changed = true
		}
	}
	first := true
	for changed {
		changed = false
		for _, fn := range funcs {
			for _, b := range fn.Blocks {
				for _, in := range b.Instrs {
					switch x := in.(type) {
					case *ssa.Call:
						name := prov.CalleeName(&x.Call)
						if idx, ok := sourceCalls[name]; ok {
							if first {
								a.Source[name]++
							}
							if x.Call.Signature().Results().Len() == 1 {
								mark(x)
							} else {
								a.markExtract(x, idx, mark)
							}
						}
						if name == "binary.Read" && len(x.Call.Args) == 3 {
							// the target object receives input-declared integers
							if mi, ok := x.Call.Args[2].(*ssa.MakeInterface); ok {
								if !a.ptrT[mi.X] {
									a.ptrT[mi.X] = true
									changed = true
									if first {
										a.Source[name]++
									}
								}
							}
						}
						for _, cal := range a.P.ModuleCallees(a.CG, x) {
							for i, t := range a.retT[cal] {
								if !t {
									continue
								}
								if cal.Signature.Results().Len() == 1 {
									mark(x)
								} else {
									a.markExtract(x, i, mark)
								}
							}
						}
					case *ssa.Extract:
						// handled through markExtract
					case *ssa.BinOp:
						if (a.T[x.X] || a.T[x.Y]) && isInteger(x.Type()) {
							mark(x)
						}
					case *ssa.UnOp:
						if x.Op == token.MUL {
							switch ad := x.X.(type) {
							case *ssa.FieldAddr:
								if a.FT[fieldKey(ad.X, ad.Field)] {
									mark(x)
								}
							case *ssa.Alloc:
								if a.ptrT[ad] {
									mark(x)
								}
							case *ssa.FreeVar:
								if a.ptrT[ad] {
									mark(x)
								}
							}
						} else if a.T[x.X] {
							mark(x)
						}
					case *ssa.Field:
						if a.FT[fieldKey(x.X, x.Field)] {
							mark(x)
						}
					case *ssa.Convert:
						if a.T[x.X] {
							mark(x)
						}
					case *ssa.ChangeType:
						if a.T[x.X] {
							mark(x)
						}
					case *ssa.Phi:
						for _, e := range x.Edges {
							if a.T[e] {
								mark(x)
							}
						}
					case *ssa.Store:
						if a.T[x.Val] {
							switch ad := x.Addr.(type) {
							case *ssa.FieldAddr:
								k := fieldKey(ad.X, ad.Field)
								if !a.FT[k] {
									a.FT[k] = true
									changed = true
								}
							case *ssa.Alloc:
								if !a.ptrT[ad] {
									a.ptrT[ad] = true
									changed = true
								}
							case *ssa.FreeVar:
								if !a.ptrT[ad] {
									a.ptrT[ad] = true
									changed = true
								}
							}
						}
					case *ssa.MakeClosure:
						fn2, _ := x.Fn.(*ssa.Function)
						if fn2 == nil {
							break
						}
						for i, bv := range x.Bindings {
							if i >= len(fn2.FreeVars) {
								break
							}
							if a.ptrT[bv] && !a.ptrT[fn2.FreeVars[i]] {
								a.ptrT[fn2.FreeVars[i]] = true
								changed = true
							}
							if a.T[bv] {
								mark(fn2.FreeVars[i])
							}
						}
					case *ssa.Return:
						for i, rv := range x.Results {
							if a.T[rv] {
								if a.retT[fn] == nil {
									a.retT[fn] = map[int]bool{}
								}
								if !a.retT[fn][i] {
									a.retT[fn][i] = true
									changed = true
								}
							}
						}
					}
					if ci, ok := in.(ssa.CallInstruction); ok {
						cc := ci.Common()
						var args []ssa.Value
						if cc.IsInvoke() {
							args = append(args, cc.Value)
						}
						args = append(args, cc.Args...)
						for _, cal := range a.P.ModuleCallees(a.CG, ci) {
							if !a.Scope[cal] {
								continue
							}
							for i, av := range args {
								if a.T[av] && i < len(cal.Params) {
									mark(cal.Params[i])
								}
							}
						}
					}
				}
			}
		}
		first = false
	}
}

func isTuple(t types.Type) bool { _, ok := t.(*types.Tuple); return ok }

func (a *Analysis) markExtract(c *ssa.Call, idx int, mark func(ssa.Value)) {
	for _, ref := range *c.Referrers() {
		if ex, ok := ref.(*ssa.Extract); ok && ex.Index == idx {
			mark(ex)
		}
	}
}

func sortedFuncs(m map[*ssa.Function]bool) []*ssa.Function {
	var out []*ssa.Function
	for f := range m {
		out = append(out, f)
	}
	sort.Slice(out, func(i, j int) bool { return load.FuncName(out[i]) < load.FuncName(out[j]) })
	return out
}

// ---------------------------------------------------------------- bounds

type BoundKind int

const (
	Unbounded BoundKind = iota
	ConstB              // <= C
	LenB                // <= len(S) + C   (S canonical term of a slice/string)
	ParamB              // <= parameter S of the enclosing function
)

type Bound struct {
	Kind BoundKind
	C    uint64
	S    string
	Why  string
}

func (b Bound) String() string {
	switch b.Kind {
	case ConstB:
		return fmt.Sprintf("<= %d (%s)", b.C, b.Why)
	case LenB:
		if b.C != 0 {
			return fmt.Sprintf("<= len(%s)+%d (%s)", b.S, b.C, b.Why)
		}
		return fmt.Sprintf("<= len(%s) (%s)", b.S, b.Why)
	case ParamB:
		return fmt.Sprintf("<= parameter %s (%s)", b.S, b.Why)
	}
	return "unbounded"
}

// fact: X op Y as SSA values, harvested from dominating branches.
type fact struct {
	op   token.Token
	x, y ssa.Value
}

// domFacts collects comparison facts that hold whenever block b executes.
func domFacts(b *ssa.BasicBlock) []fact {
	var out []fact
	for d := b; d != nil; d = d.Idom() {
		p := d.Idom()
		if p == nil {
			break
		}
		ifi, ok := p.Instrs[len(p.Instrs)-1].(*ssa.If)
		if !ok {
			continue
		}
		for i, s := range p.Succs {
			if s != d || len(s.Preds) != 1 {
				continue
			}
			for _, f := range gate.EdgeFacts(ifi.Cond, i == 0) {
				if f.Kind == gate.FCmp {
					out = append(out, fact{f.Op, f.X, f.Y})
				}
			}
		}
	}
	return out
}

func pureTerm(t string) bool {
	for _, bad := range []string{"call:", "invoke:", "dyn:", "phi(", "↺", "[_]", "rangeidx", "?"} {
		if strings.Contains(t, bad) {
			return false
		}
	}
	return true
}

// same: a and b denote the same run-time value (structural equality over
// pure SSA operators; loads only of fields never stored in the function).
func same(a, b ssa.Value) bool {
	return sameD(a, b, 0)
}

func sameD(a, b ssa.Value, d int) bool {
	if a == b {
		return true
	}
	if d > 8 || a == nil || b == nil {
		return false
	}
	a, b = stripConv(a), stripConv(b)
	if a == b {
		return true
	}
	switch x := a.(type) {
	case *ssa.Const:
		y, ok := b.(*ssa.Const)
		return ok && x.Value != nil && y.Value != nil && constant.Compare(x.Value, token.EQL, y.Value)
	case *ssa.Field:
		y, ok := b.(*ssa.Field)
		return ok && x.Field == y.Field && sameD(x.X, y.X, d+1)
	case *ssa.BinOp:
		y, ok := b.(*ssa.BinOp)
		return ok && x.Op == y.Op && sameD(x.X, y.X, d+1) && sameD(x.Y, y.Y, d+1)
	case *ssa.Call:
		y, ok := b.(*ssa.Call)
		if !ok {
			return false
		}
		bx, ok1 := x.Call.Value.(*ssa.Builtin)
		by, ok2 := y.Call.Value.(*ssa.Builtin)
		if ok1 && ok2 && bx.Name() == by.Name() && (bx.Name() == "len" || bx.Name() == "cap") {
			return sameD(x.Call.Args[0], y.Call.Args[0], d+1)
		}
		return false
	case *ssa.UnOp:
		y, ok := b.(*ssa.UnOp)
		if !ok || x.Op != y.Op {
			return false
		}
		if x.Op != token.MUL {
			return sameD(x.X, y.X, d+1)
		}
		// two loads: same address, and the location is not stored to in this function
		fx, ok1 := x.X.(*ssa.FieldAddr)
		fy, ok2 := y.X.(*ssa.FieldAddr)
		if ok1 && ok2 && fx.Field == fy.Field && sameD(fx.X, fy.X, d+1) {
			return !storedInFunc(x.Parent(), fieldKey(fx.X, fx.Field))
		}
		if gx, ok := x.X.(*ssa.FreeVar); ok {
			return gx == y.X && !storedInFunc(x.Parent(), "")
		}
		if ax, ok := x.X.(*ssa.Alloc); ok && ax == y.X {
			// two loads of a local whose address is taken: equal if every
			// writer (store, or call receiving its address) precedes both
			return writersPrecede(ax, x, y)
		}
		return false
	}
	ta, tb := prov.Of(a), prov.Of(b)
	return ta == tb && pureTerm(ta)
}

// writersPrecede: every instruction that may write alloc a executes before
// both loads l1 and l2.
func writersPrecede(a *ssa.Alloc, l1, l2 ssa.Instruction) bool {
	before := func(w, l ssa.Instruction) bool {
		if w.Block() == l.Block() {
			for _, in := range w.Block().Instrs {
				if in == w {
					return true
				}
				if in == l {
					return false
				}
			}
			return false
		}
		return w.Block().Dominates(l.Block()) && !l.Block().Dominates(w.Block())
	}
	var writers []ssa.Instruction
	var collect func(v ssa.Value)
	seen := map[ssa.Value]bool{}
	collect = func(v ssa.Value) {
		if seen[v] {
			return
		}
		seen[v] = true
		for _, ref := range *v.Referrers() {
			switch r := ref.(type) {
			case *ssa.Store:
				if r.Addr == v {
					writers = append(writers, r)
				}
			case *ssa.MakeInterface:
				collect(r)
			case ssa.CallInstruction:
				writers = append(writers, r)
			case *ssa.MakeClosure:
				writers = append(writers, r) // captured: may be written any time later
			}
		}
	}
	collect(a)
	for _, w := range writers {
		if _, isClosure := w.(*ssa.MakeClosure); isClosure {
			return false
		}
		if !before(w, l1) || !before(w, l2) {
			return false
		}
	}
	return true
}

// storedInFunc: fn stores to the given struct field (or, for key "", through
// any free variable).
func storedInFunc(fn *ssa.Function, key string) bool {
	for _, b := range fn.Blocks {
		for _, in := range b.Instrs {
			st, ok := in.(*ssa.Store)
			if !ok {
				continue
			}
			switch ad := st.Addr.(type) {
			case *ssa.FieldAddr:
				if key != "" && fieldKey(ad.X, ad.Field) == key {
					return true
				}
			case *ssa.FreeVar:
				if key == "" {
					return true
				}
			}
		}
	}
	return false
}

// stripConv removes widening/no-op integer conversions (int -> uint64 of a
// non-negative length, uint8 -> int, ...) for the purpose of identity.
func stripConv(v ssa.Value) ssa.Value {
	for {
		switch x := v.(type) {
		case *ssa.Convert:
			if isInteger(x.Type()) && isInteger(x.X.Type()) {
				v = x.X
				continue
			}
		case *ssa.ChangeType:
			v = x.X
			continue
		}
		return v
	}
}

// lenOf: v is len(s) (possibly converted): returns s.
func lenOf(v ssa.Value) (ssa.Value, bool) {
	v = stripConv(v)
	if c, ok := v.(*ssa.Call); ok {
		if b, ok := c.Call.Value.(*ssa.Builtin); ok && b.Name() == "len" {
			return c.Call.Args[0], true
		}
	}
	return nil, false
}

func constOf(v ssa.Value) (uint64, bool) {
	v = stripConv(v)
	if c, ok := v.(*ssa.Const); ok && c.Value != nil && c.Value.Kind() == constant.Int {
		if u, ok := constant.Uint64Val(c.Value); ok {
			return u, true
		}
	}
	return 0, false
}

func typeMax(t types.Type, sizes types.Sizes) (uint64, bool) {
	b, ok := t.Underlying().(*types.Basic)
	if !ok {
		return 0, false
	}
	bits := uint(sizes.Sizeof(t)) * 8
	if b.Info()&types.IsUnsigned != 0 {
		if bits >= 64 {
			return math.MaxUint64, true
		}
		return (uint64(1) << bits) - 1, true
	}
	if b.Info()&types.IsInteger != 0 {
		return (uint64(1) << (bits - 1)) - 1, true
	}
	return 0, false
}

// Upper computes an upper bound for v valid at block `at`.
func (a *Analysis) Upper(v ssa.Value, at *ssa.BasicBlock) Bound {
	return a.upper(v, at, 0, map[ssa.Value]bool{})
}

func (a *Analysis) upper(v ssa.Value, at *ssa.BasicBlock, depth int, seen map[ssa.Value]bool) Bound {
	if depth > 12 || seen[v] {
		return Bound{}
	}
	seen[v] = true
	defer delete(seen, v)
	best := Bound{}
	better := func(b Bound) {
		if b.Kind == Unbounded {
			return
		}
		if best.Kind == Unbounded || (b.Kind == ConstB && (best.Kind != ConstB || b.C < best.C)) {
			best = b
		}
	}
	// 1. dominating facts
	for _, f := range domFacts(at) {
		op, x, y := f.op, f.x, f.y
		if !same(x, v) {
			if same(y, v) {
				x, y = y, x
				switch op {
				case token.LSS:
					op = token.GTR
				case token.GTR:
					op = token.LSS
				case token.LEQ:
					op = token.GEQ
				case token.GEQ:
					op = token.LEQ
				}
			} else {
				continue
			}
		}
		// a signed value known to be non-negative is at most the maximum of its type
		if c, ok := constOf(y); ok && ((op == token.GEQ && c == 0) || (op == token.GTR && (c == 0 || int64(c) == -1))) {
			if bt, ok := v.Type().Underlying().(*types.Basic); ok && bt.Info()&types.IsInteger != 0 && bt.Info()&types.IsUnsigned == 0 {
				if m, ok := typeMax(bt, a.Sizes); ok {
					better(Bound{Kind: ConstB, C: m, Why: "dominating test for non-negativity of a signed value"})
				}
			}
			continue
		}
		if op != token.LSS && op != token.LEQ && op != token.EQL {
			continue
		}
		if c, ok := constOf(y); ok {
			if op == token.LSS && c > 0 {
				c--
			}
			better(Bound{Kind: ConstB, C: c, Why: "dominating guard against constant"})
			continue
		}
		if s, ok := lenOf(y); ok {
			better(Bound{Kind: LenB, S: prov.Of(s), Why: "dominating guard against len"})
			continue
		}
		// x <= len(s)/c
		if bo, ok := stripConv(y).(*ssa.BinOp); ok && bo.Op == token.QUO {
			if s, ok := lenOf(bo.X); ok {
				better(Bound{Kind: LenB, S: prov.Of(s), Why: "dominating guard against len/c"})
				continue
			}
		}
		if p, ok := stripConv(y).(*ssa.Parameter); ok {
			better(Bound{Kind: ParamB, S: p.Name(), Why: "dominating guard against the caller's limit"})
			continue
		}
		// transitive: x <= y and y bounded
		yb := a.upper(y, at, depth+1, seen)
		if yb.Kind != Unbounded {
			yb.Why = "guard against a bounded value"
			better(yb)
		}
	}
	// 2. structure
	switch x := v.(type) {
	case *ssa.Const:
		if c, ok := constOf(x); ok {
			better(Bound{Kind: ConstB, C: c, Why: "constant"})
		}
	case *ssa.Convert:
		if isInteger(x.X.Type()) {
			inner := a.upper(x.X, at, depth+1, seen)
			if tm, ok := typeMax(x.Type(), a.Sizes); ok {
				// a narrowing conversion keeps the bound only if it fits
				if inner.Kind == ConstB && inner.C <= tm {
					better(inner)
				} else if inner.Kind == LenB || inner.Kind == ParamB {
					better(inner)
				}
			}
		}
	case *ssa.ChangeType:
		better(a.upper(x.X, at, depth+1, seen))
	case *ssa.Call:
		if s, ok := lenOf(x); ok {
			better(Bound{Kind: LenB, S: prov.Of(s), Why: "a length"})
		}
		// module function whose every return is bounded by a constant
		// (getAdditionalInfoLength, Decode3BytesUint)
		if sc := x.Call.StaticCallee(); sc != nil && sc.Blocks != nil && x.Call.Signature().Results().Len() == 1 {
			if m, ok := a.maxReturn(sc, 0, depth, seen); ok {
				better(Bound{Kind: ConstB, C: m, Why: "every return of " + prov.FuncString(sc) + " is bounded by a constant"})
			}
		}
	case *ssa.Extract:
		if c, ok := x.Tuple.(*ssa.Call); ok {
			name := prov.CalleeName(&c.Call)
			if (name == "io.ReadFull" || name == "io.ReadAtLeast") && x.Index == 0 {
				better(Bound{Kind: LenB, S: prov.Of(c.Call.Args[1]), Why: "io.ReadFull returns n <= len(buf)"})
			}
			if sc := c.Call.StaticCallee(); sc != nil && sc.Blocks != nil {
				if m, ok := a.maxReturn(sc, x.Index, depth, seen); ok {
					better(Bound{Kind: ConstB, C: m, Why: "every return of " + prov.FuncString(sc) + " is bounded by a constant"})
				}
			}
		}
	case *ssa.BinOp:
		xb := a.upper(x.X, at, depth+1, seen)
		yb := a.upper(x.Y, at, depth+1, seen)
		switch x.Op {
		case token.ADD, token.OR:
			if xb.Kind == ConstB && yb.Kind == ConstB && xb.C < 1<<62 && yb.C < 1<<62 {
				better(Bound{Kind: ConstB, C: xb.C + yb.C, Why: "sum of bounded values"})
			} else if xb.Kind == LenB && yb.Kind == ConstB && yb.C < 1<<16 {
				better(Bound{Kind: LenB, S: xb.S, C: xb.C + yb.C, Why: "a length plus a small constant"})
			} else if yb.Kind == LenB && xb.Kind == ConstB && xb.C < 1<<16 {
				better(Bound{Kind: LenB, S: yb.S, C: xb.C + yb.C, Why: "a length plus a small constant"})
			} else if xb.Kind == ParamB && yb.Kind == ConstB && yb.C < 1<<16 {
				better(Bound{Kind: ParamB, S: xb.S, C: yb.C, Why: "the caller's limit plus a small constant"})
			}
		case token.SHL:
			if c, ok := constOf(x.Y); ok && xb.Kind == ConstB && c < 56 && xb.C < 1<<(63-c) {
				better(Bound{Kind: ConstB, C: xb.C << c, Why: "bounded value shifted by a constant"})
			}
		case token.AND:
			if yb.Kind == ConstB {
				better(yb)
			} else if xb.Kind == ConstB {
				better(xb)
			}
		case token.SHR, token.QUO, token.REM:
			better(xb)
		case token.SUB:
			// x - y <= x for unsigned non-wrapping use; only when x bounded
			better(xb)
		case token.MUL:
			if xb.Kind == ConstB && yb.Kind == ConstB && xb.C < 1<<31 && yb.C < 1<<31 {
				better(Bound{Kind: ConstB, C: xb.C * yb.C, Why: "product of bounded values"})
			}
			// x <= len/c established above gives LenB for x; x*c <= len
			if _, ok := constOf(x.Y); ok && xb.Kind == LenB && strings.Contains(xb.Why, "len/c") {
				better(Bound{Kind: LenB, S: xb.S, Why: "x <= len/c, so x*c <= len"})
			}
			if _, ok := constOf(x.X); ok && yb.Kind == LenB && strings.Contains(yb.Why, "len/c") {
				better(Bound{Kind: LenB, S: yb.S, Why: "x <= len/c, so c*x <= len"})
			}
		}
	case *ssa.Phi:
		// maximum over incoming values; a cycle makes it unbounded unless a fact above bounded it
		// n = n<<8 | byte, once per element of a fixed-size array (or for a
		// constant number of iterations): n < 2^(8*count)
		if cnt, ok := shiftOrAccumulation(x); ok && cnt <= 7 {
			better(Bound{Kind: ConstB, C: 1<<(8*uint(cnt)) - 1, Why: fmt.Sprintf("big-endian accumulation of %d bytes", cnt)})
			break
		}
		var agg Bound
		ok := true
		for i, e := range x.Edges {
			eb := a.upper(e, x.Block().Preds[i], depth+1, seen)
			if eb.Kind == Unbounded {
				ok = false
				break
			}
			if agg.Kind == Unbounded {
				agg = eb
			} else if agg.Kind == ConstB && eb.Kind == ConstB {
				if eb.C > agg.C {
					agg = eb
				}
			} else if agg.Kind == eb.Kind && agg.S == eb.S {
				if eb.C > agg.C {
					agg = eb
				}
			} else {
				ok = false
				break
			}
		}
		if ok {
			better(agg)
		}
	}
	// 2b. the count a read reports is at most the length of the buffer it was given (io.Reader contract)
	if buf := readBuffer(v); buf != nil {
		better(Bound{Kind: LenB, S: prov.Of(buf), Why: "a read delivers at most len(buffer) bytes"})
	}
	// 3. type
	if best.Kind == Unbounded {
		if tm, ok := typeMax(v.Type(), a.Sizes); ok && tm <= math.MaxUint32 {
			better(Bound{Kind: ConstB, C: tm, Why: "range of " + v.Type().String()})
		}
	}
	return best
}

// maxReturn: the largest constant bound over all returns of fn at index idx
// (negative error markers such as -1 are ignored); ok=false if some return is
// not constant-bounded.
func (a *Analysis) maxReturn(fn *ssa.Function, idx int, depth int, seen map[ssa.Value]bool) (uint64, bool) {
	var m uint64
	n := 0
	for _, b := range fn.Blocks {
		r, ok := b.Instrs[len(b.Instrs)-1].(*ssa.Return)
		if !ok {
			continue
		}
		if idx >= len(r.Results) {
			return 0, false
		}
		if k, isC := r.Results[idx].(*ssa.Const); isC && k.Value != nil && k.Value.Kind() == constant.Int && constant.Sign(k.Value) < 0 {
			n++
			continue
		}
		ub := a.upper(r.Results[idx], b, depth+1, seen)
		if ub.Kind != ConstB {
			return 0, false
		}
		n++
		if ub.C > m {
			m = ub.C
		}
	}
	return m, n > 0
}

func maxConstReturn(fn *ssa.Function) (uint64, bool) { return maxConstReturnIdx(fn, 0) }

func maxConstReturnIdx(fn *ssa.Function, idx int) (uint64, bool) {
	var m uint64
	n := 0
	for _, b := range fn.Blocks {
		r, ok := b.Instrs[len(b.Instrs)-1].(*ssa.Return)
		if !ok {
			continue
		}
		if idx >= len(r.Results) {
			return 0, false
		}
		c, ok := constOf(r.Results[idx])
		if !ok {
			// negative constants (error markers such as -1) do not raise the maximum
			if k, isC := r.Results[idx].(*ssa.Const); isC && k.Value != nil && constant.Sign(k.Value) < 0 {
				n++
				continue
			}
			return 0, false
		}
		n++
		if c > m {
			m = c
		}
	}
	return m, n > 0
}

// ---------------------------------------------------------------- obligations

type Obl struct {
	Rule   string // U1..U5
	Fn     *ssa.Function
	Instr  ssa.Instruction
	Key    string
	Pos    string
	OK     bool
	How    string
	Detail []string
}

func maxSigned(t types.Type, sizes types.Sizes) uint64 {
	m, _ := typeMax(t, sizes)
	return m
}

// Obligations enumerates and decides the hazard uses of tainted integers in
// the functions of `in`.
func (a *Analysis) Obligations(in map[*ssa.Function]bool, skipBounds func(*ssa.Function) bool) []*Obl {
	var out []*Obl
	for _, fn := range sortedFuncs(in) {
		counter := map[string]int{}
		add := func(rule string, ins ssa.Instruction, what string) *Obl {
			counter[rule+what]++
			o := &Obl{Rule: rule, Fn: fn, Instr: ins, Pos: a.P.InstrPos(ins),
				Key: fmt.Sprintf("%s:%s#%d", load.FuncName(fn), what, counter[rule+what])}
			out = append(out, o)
			return o
		}
		for _, b := range fn.Blocks {
			for _, ins := range b.Instrs {
				switch x := ins.(type) {
				case *ssa.Convert:
					a.checkConvert(fn, b, x, add)
				case *ssa.Slice:
					if skipBounds != nil && skipBounds(fn) {
						continue
					}
					if (x.Low != nil && a.T[x.Low]) || (x.High != nil && a.T[x.High]) {
						a.checkSlice(fn, b, x, add)
					}
				case *ssa.IndexAddr:
					if skipBounds != nil && skipBounds(fn) {
						continue
					}
					if a.T[x.Index] {
						a.checkIndex(b, x, x.X, x.Index, add)
					}
				case *ssa.Index:
					if skipBounds != nil && skipBounds(fn) {
						continue
					}
					if a.T[x.Index] {
						a.checkIndex(b, x, x.X, x.Index, add)
					}
				case *ssa.BinOp:
					a.checkArith(fn, b, x, add, skipBounds != nil && skipBounds(fn))
				case *ssa.MakeSlice:
					if a.T[x.Len] || a.T[x.Cap] {
						o := add("U4", x, "make("+shortT(x.Type())+")")
						ub := a.Upper(x.Len, b)
						if a.T[x.Cap] && x.Cap != x.Len {
							ub = a.Upper(x.Cap, b) // the capacity is what gets allocated
						}
						a.decideAlloc(o, ub, fn)
					}
				case *ssa.Call:
					name := prov.CalleeName(&x.Call)
					var cnt ssa.Value
					switch name {
					case "io.CopyN":
						cnt = x.Call.Args[2]
					case "io.LimitReader":
						cnt = x.Call.Args[1]
					case "(*bytes.Buffer).Next", "(*bytes.Buffer).Grow":
						cnt = x.Call.Args[1]
					}
					if cnt != nil && a.T[cnt] && name == "(*bytes.Buffer).Grow" {
						// Grow allocates what it is told to: an allocation, not an incremental copy
						o := add("U4", x, "alloc("+name+")")
						a.decideAlloc(o, a.Upper(cnt, b), fn)
					} else if cnt != nil && a.T[cnt] {
						o := add("U4", x, "count("+name+")")
						ub := a.Upper(cnt, b)
						if ub.Kind != Unbounded {
							o.OK = true
							o.How = "count argument " + ub.String() + "; the copy is incremental, memory follows the bytes actually present"
						} else {
							o.How = "count argument derived from the input is not range-checked (a value >= 2^63 becomes a negative count)"
						}
					}
				}
			}
		}
		a.checkLoops(fn, add)
	}
	return out
}

func shortT(t types.Type) string {
	return types.TypeString(t, func(*types.Package) string { return "" })
}

func (a *Analysis) decideAlloc(o *Obl, ub Bound, fn *ssa.Function) {
	switch ub.Kind {
	case ConstB:
		if ub.C <= 1<<25 {
			o.OK = true
			o.How = "allocation size " + ub.String()
		} else {
			o.How = fmt.Sprintf("allocation size only bounded by %d", ub.C)
		}
	case LenB:
		o.OK = true
		o.How = "allocation size " + ub.String()
	case ParamB:
		// every in-module caller must pass a constant limit
		bad := a.paramNotConst(fn, ub.S)
		if bad == "" {
			o.OK = true
			o.How = "allocation size " + ub.String() + "; every call site in the module passes a constant limit"
		} else {
			o.How = "allocation size bounded only by parameter " + ub.S + ", and " + bad
		}
	default:
		o.How = "allocation size declared by the input is not bounded"
	}
}

// paramNotConst: "" if every module call site passes a constant (<= 2^25) for
// the named parameter of fn.
func (a *Analysis) paramNotConst(fn *ssa.Function, pname string) string {
	idx := -1
	for i, p := range fn.Params {
		if p.Name() == pname || prov.CanonParam(fn, p.Name()) == pname || "param:"+prov.CanonParam(fn, p.Name()) == pname {
			idx = i
		}
	}
	if idx < 0 {
		return "parameter not found"
	}
	n := 0
	for _, caller := range a.P.Funcs {
		if caller.Synthetic != "" {
			continue // wrappers forward their own parameter
		}
		for _, b := range caller.Blocks {
			for _, in := range b.Instrs {
				ci, ok := in.(ssa.CallInstruction)
				if !ok {
					continue
				}
				match := false
				for _, cal := range a.P.ModuleCallees(a.CG, ci) {
					if cal == fn {
						match = true
					}
				}
				if !match {
					continue
				}
				cc := ci.Common()
				var args []ssa.Value
				if cc.IsInvoke() {
					args = append(args, cc.Value)
				}
				args = append(args, cc.Args...)
				if idx >= len(args) {
					continue
				}
				n++
				c, ok := constOf(args[idx])
				if !ok || c > 1<<25 {
					return "call site " + a.P.InstrPos(in) + " in " + load.FuncName(caller) + " passes a non-constant or huge limit"
				}
			}
		}
	}
	if n == 0 {
		return "no call site in the module fixes the limit"
	}
	return ""
}

// exemptUse: the converted value is only used where any int64 is harmless.
func exemptUses(v ssa.Value) bool {
	refs := v.Referrers()
	if refs == nil || len(*refs) == 0 {
		return true
	}
	for _, r := range *refs {
		switch x := r.(type) {
		case *ssa.Call:
			n := prov.CalleeName(&x.Call)
			if n != "time.Unix" {
				return false
			}
		case *ssa.MakeInterface:
			// formatting argument
			for _, r2 := range *x.Referrers() {
				if _, ok := r2.(*ssa.Store); !ok {
					return false
				}
			}
		case *ssa.DebugRef:
		default:
			return false
		}
	}
	return true
}

func (a *Analysis) checkConvert(fn *ssa.Function, b *ssa.BasicBlock, x *ssa.Convert, add func(string, ssa.Instruction, string) *Obl) {
	if !a.T[x.X] || !isInteger(x.Type()) || !isInteger(x.X.Type()) {
		return
	}
	from := x.X.Type().Underlying().(*types.Basic)
	to := x.Type().Underlying().(*types.Basic)
	fromMax, _ := typeMax(from, a.Sizes)
	toMax, _ := typeMax(to, a.Sizes)
	if fromMax <= toMax {
		return // value-preserving
	}
	if to.Info()&types.IsUnsigned != 0 && from.Info()&types.IsUnsigned == 0 {
		// signed -> unsigned of the same width: only negative values change; lengths are non-negative
		if a.Sizes.Sizeof(to) >= a.Sizes.Sizeof(from) {
			return
		}
	}
	if to.Info()&types.IsUnsigned != 0 {
		// truncation to a narrower unsigned type yields a value with an
		// intrinsic bound; length-field narrowings are checked where they are
		// emitted (C17, C02)
		return
	}
	o := add("U1", x, "conv("+from.Name()+"->"+to.Name()+")")
	if exemptUses(x) {
		o.OK = true
		o.How = "result only feeds time.Unix / formatting, where any value is harmless"
		return
	}
	if uses := realUseBlocks(x); len(uses) > 0 {
		all := true
		for _, u := range uses {
			ub := a.Upper(x.X, u)
			if !((ub.Kind == ConstB && ub.C <= toMax) || ub.Kind == LenB) {
				all = false
				break
			}
		}
		if all {
			o.OK = true
			o.How = "at every use of the converted value its operand is bounded and fits " + to.Name()
			return
		}
	}
	if a.signTested(x) {
		o.OK = true
		o.How = "the converted value is used only where it was tested to be non-negative (operand fits " + to.Name() + " there)"
		return
	}
	ub := a.Upper(x.X, b)
	switch ub.Kind {
	case ConstB:
		if ub.C <= toMax {
			o.OK = true
			o.How = "operand " + ub.String() + " fits " + to.Name()
		} else {
			o.How = fmt.Sprintf("operand bounded by %d, which does not fit %s under this GOARCH", ub.C, to.Name())
		}
	case LenB:
		o.OK = true
		o.How = "operand " + ub.String() + " fits " + to.Name()
	case ParamB:
		o.How = "operand bounded only by a parameter"
	default:
		o.How = "input-declared " + from.Name() + " converted to " + to.Name() + " without a range check: values above " + fmt.Sprint(toMax) + " wrap (negative counts, wrong lengths)"
	}
}

// leqLen: is v <= len(s) at block b?  Also reports why.
func (a *Analysis) leqLen(v, s ssa.Value, b *ssa.BasicBlock) (bool, string) {
	if v == nil {
		return true, "default bound"
	}
	if s2, ok := lenOf(v); ok && same(s2, s) {
		return true, "it is len of the same slice"
	}
	if c, ok := constOf(v); ok && c == 0 {
		return true, "zero"
	}
	if buf := readBuffer(stripConv(v)); buf != nil && same(buf, s) {
		return true, "a read delivers at most len(buffer) bytes, and the buffer is the sliced value"
	}
	ts := prov.Of(s)
	ub := a.Upper(v, b)
	if ub.Kind == LenB && ub.C == 0 && ub.S == ts && (pureTerm(ts) || a.stableField(s)) {
		return true, ub.String()
	}
	// x + y with x <= len and y <= len - x
	if bo, ok := stripConv(v).(*ssa.BinOp); ok && bo.Op == token.ADD {
		if ok2, why := a.sumWithin(bo.X, bo.Y, s, b); ok2 {
			return true, why
		}
		if ok2, why := a.sumWithin(bo.Y, bo.X, s, b); ok2 {
			return true, why
		}
	}
	// struct invariant: field1 <= len(field2)
	if why := a.structInvariant(v, s); why != "" {
		return true, why
	}
	return false, ""
}

// readBuffer: v is the byte count reported by a read call; the result is
// the buffer that call filled (io.Reader contract: 0 <= n <= len(buffer)).
func readBuffer(v ssa.Value) ssa.Value {
	ex, ok := v.(*ssa.Extract)
	if !ok || ex.Index != 0 {
		return nil
	}
	c, ok := ex.Tuple.(*ssa.Call)
	if !ok {
		return nil
	}
	switch prov.CalleeName(&c.Call) {
	case "io.ReadFull", "io.ReadAtLeast", "(*os.File).Read", "(*bytes.Buffer).Read":
		if len(c.Call.Args) >= 2 {
			return c.Call.Args[1]
		}
	case "invoke:io.Reader.Read":
		if len(c.Call.Args) >= 1 {
			return c.Call.Args[0]
		}
	}
	return nil
}

// stableField: s is a load of a struct field that is never stored outside
// composite literals in the module (so two loads denote the same slice).
func (a *Analysis) stableField(s ssa.Value) bool {
	u, ok := s.(*ssa.UnOp)
	if !ok {
		return false
	}
	fa, ok := u.X.(*ssa.FieldAddr)
	if !ok {
		return false
	}
	return a.onlyLiteralStores(fieldKey(fa.X, fa.Field))
}

func (a *Analysis) onlyLiteralStores(key string) bool {
	for _, fn := range a.P.Funcs {
		for _, b := range fn.Blocks {
			for _, in := range b.Instrs {
				st, ok := in.(*ssa.Store)
				if !ok {
					continue
				}
				fa, ok := st.Addr.(*ssa.FieldAddr)
				if !ok || fieldKey(fa.X, fa.Field) != key {
					continue
				}
				if al, ok := fa.X.(*ssa.Alloc); !ok || (al.Comment != "complit" && al.Comment != "new") {
					return false
				}
			}
		}
	}
	return true
}

// sumWithin: x <= len(s) and y <= len(s) - x are both known at b.
func (a *Analysis) sumWithin(x, y, s ssa.Value, b *ssa.BasicBlock) (bool, string) {
	xOK := false
	if ub := a.Upper(x, b); ub.Kind == LenB && ub.C == 0 && ub.S == prov.Of(s) {
		xOK = true
	}
	if !xOK {
		return false, ""
	}
	for _, f := range domFacts(b) {
		op, l, r := f.op, f.x, f.y
		if !same(l, y) {
			if same(r, y) {
				l, r = r, l
				switch op {
				case token.GTR:
					op = token.LSS
				case token.GEQ:
					op = token.LEQ
				case token.LSS:
					op = token.GTR
				case token.LEQ:
					op = token.GEQ
				}
			} else {
				continue
			}
		}
		if op != token.LSS && op != token.LEQ {
			continue
		}
		sub, ok := stripConv(r).(*ssa.BinOp)
		if !ok || sub.Op != token.SUB {
			continue
		}
		if s2, ok := lenOf(sub.X); ok && same(s2, s) && same(sub.Y, x) {
			return true, "x <= len(s) and y <= len(s)-x are dominating guards, so x+y <= len(s) without wrap-around"
		}
	}
	return false, ""
}

// structInvariant: v is a load of field f1 and s a load of field f2 of the
// same struct object, where every store in the module builds the pair as
// f2 = make([]T, X + c), f1 = X.
func (a *Analysis) structInvariant(v, s ssa.Value) string {
	lv, ok1 := stripConv(v).(*ssa.UnOp)
	ls, ok2 := s.(*ssa.UnOp)
	if !ok1 || !ok2 {
		return ""
	}
	fv, ok1 := lv.X.(*ssa.FieldAddr)
	fs, ok2 := ls.X.(*ssa.FieldAddr)
	if !ok1 || !ok2 || !same(fv.X, fs.X) && fv.X != fs.X {
		return ""
	}
	kv, ks := fieldKey(fv.X, fv.Field), fieldKey(fs.X, fs.Field)
	// collect stores per allocation
	type pair struct{ v, s ssa.Value }
	allocs := map[ssa.Value]*pair{}
	for _, fn := range a.P.Funcs {
		for _, b := range fn.Blocks {
			for _, in := range b.Instrs {
				st, ok := in.(*ssa.Store)
				if !ok {
					continue
				}
				fa, ok := st.Addr.(*ssa.FieldAddr)
				if !ok {
					continue
				}
				k := fieldKey(fa.X, fa.Field)
				if k != kv && k != ks {
					continue
				}
				al, ok := fa.X.(*ssa.Alloc)
				if !ok {
					return "" // stored through an arbitrary pointer: no invariant
				}
				if allocs[al] == nil {
					allocs[al] = &pair{}
				}
				if k == kv {
					allocs[al].v = st.Val
				} else {
					allocs[al].s = st.Val
				}
			}
		}
	}
	if len(allocs) == 0 {
		return ""
	}
	n := 0
	for _, p := range allocs {
		if p.s == nil && p.v == nil {
			continue
		}
		if p.s == nil || p.v == nil {
			// one of the fields left zero: zero-length buffer with zero size is consistent only if both absent
			return ""
		}
		ms, ok := p.s.(*ssa.MakeSlice)
		if !ok {
			return ""
		}
		l := stripConv(ms.Len)
		if same(l, p.v) {
			n++
			continue
		}
		bo, ok := l.(*ssa.BinOp)
		if !ok || bo.Op != token.ADD {
			return ""
		}
		if _, isC := constOf(bo.Y); isC && same(bo.X, p.v) {
			n++
			continue
		}
		if _, isC := constOf(bo.X); isC && same(bo.Y, p.v) {
			n++
			continue
		}
		return ""
	}
	if n == 0 {
		return ""
	}
	return fmt.Sprintf("struct invariant: every construction stores %s = X and %s = make(X + c)", kv, ks)
}

func (a *Analysis) checkSlice(fn *ssa.Function, b *ssa.BasicBlock, x *ssa.Slice, add func(string, ssa.Instruction, string) *Obl) {
	o := add("U3", x, "slice("+short(prov.Of(x.X))+")")
	hiOK, hiWhy := true, "default high bound"
	if x.High != nil {
		hiOK, hiWhy = a.leqLen(x.High, x.X, b)
	}
	loOK, loWhy := true, "default low bound"
	if x.Low != nil {
		if x.High == nil {
			loOK, loWhy = a.leqLen(x.Low, x.X, b)
		} else {
			// lo <= hi: hi = lo + y (no wrap, established by sumWithin), or same value
			loOK = false
			if bo, ok := stripConv(x.High).(*ssa.BinOp); ok && bo.Op == token.ADD && (same(bo.X, x.Low) || same(bo.Y, x.Low)) && hiOK && strings.Contains(hiWhy, "without wrap-around") {
				loOK, loWhy = true, "high = low + y without wrap-around"
			} else if ok2, why := a.leqLen(x.Low, x.X, b); ok2 && a.leq(x.Low, x.High, b) {
				loOK, loWhy = true, why+" and low <= high"
			}
		}
	}
	if hiOK && loOK {
		o.OK = true
		o.How = "high: " + hiWhy + "; low: " + loWhy
	} else {
		o.How = "slice bound derived from the input is not proven within len of the sliced value"
		if !hiOK {
			o.Detail = append(o.Detail, "high bound "+short(prov.Of(x.High))+" has no dominating guard against len("+short(prov.Of(x.X))+")")
		}
		if !loOK {
			o.Detail = append(o.Detail, "low bound "+short(prov.Of(x.Low))+" is not proven <= high / len")
		}
	}
}

// leq: a dominating fact says x <= y (or x < y).
func (a *Analysis) leq(x, y ssa.Value, b *ssa.BasicBlock) bool {
	for _, f := range domFacts(b) {
		if (f.op == token.LEQ || f.op == token.LSS) && same(f.x, x) && same(f.y, y) {
			return true
		}
		if (f.op == token.GEQ || f.op == token.GTR) && same(f.y, x) && same(f.x, y) {
			return true
		}
	}
	return false
}

func (a *Analysis) checkIndex(b *ssa.BasicBlock, ins ssa.Instruction, coll, idx ssa.Value, add func(string, ssa.Instruction, string) *Obl) {
	o := add("U3", ins, "index("+short(prov.Of(coll))+")")
	// need idx < len(coll)
	for _, f := range domFacts(b) {
		op, l, r := f.op, f.x, f.y
		if same(r, idx) {
			l, r = r, l
			switch op {
			case token.GTR:
				op = token.LSS
			case token.GEQ:
				op = token.LEQ
			case token.LSS:
				op = token.GTR
			case token.LEQ:
				op = token.GEQ
			}
		} else if !same(l, idx) {
			continue
		}
		if op == token.LSS {
			if s, ok := lenOf(r); ok && same(s, coll) {
				o.OK = true
				o.How = "dominating guard index < len of the same collection"
				return
			}
		}
	}
	// arrays indexed by a narrow type
	if at, ok := coll.Type().Underlying().(*types.Pointer); ok {
		if arr, ok := at.Elem().Underlying().(*types.Array); ok {
			if ub := a.Upper(idx, b); ub.Kind == ConstB && int64(ub.C) < arr.Len() {
				o.OK = true
				o.How = "index " + ub.String() + " < array length"
				return
			}
		}
	}
	o.How = "index derived from the input has no dominating guard index < len(" + short(prov.Of(coll)) + ")"
}

func short(s string) string {
	if len(s) > 90 {
		return s[:87] + "..."
	}
	return s
}

// checkLoops: U5 — a loop whose exit test compares against a tainted value.
func (a *Analysis) checkLoops(fn *ssa.Function, add func(string, ssa.Instruction, string) *Obl) {
	ctx := gate.New(a.P, a.CG)
	for _, b := range fn.Blocks {
		ifi, ok := b.Instrs[len(b.Instrs)-1].(*ssa.If)
		if !ok {
			continue
		}
		c, ok := ifi.Cond.(*ssa.BinOp)
		if !ok || (c.Op != token.LSS && c.Op != token.LEQ) {
			continue
		}
		if !a.T[c.Y] {
			continue
		}
		// is b a loop header?  (has a back edge)
		isHeader := false
		for _, p := range b.Preds {
			if b.Dominates(p) {
				isHeader = true
			}
		}
		if !isHeader {
			continue
		}
		o := add("U5", ifi, "loop(<"+short(prov.Of(c.Y))+")")
		ub := a.Upper(c.Y, b)
		if ub.Kind == ConstB && ub.C <= 1<<25 || ub.Kind == LenB {
			o.OK = true
			o.How = "trip count " + ub.String()
			continue
		}
		// every iteration must pass a consuming decode whose failure leaves the loop
		g := gate.Any("consume", "a consuming decode succeeded",
			gate.CallOK("", "(*cbor.Decoder).Decode*"), gate.CallOK("", "(*cbor.Decoder).decode*"),
			gate.CallOK("", "(*cbor.Decoder).ReadByte"), gate.CallOK("", "io.ReadFull"))
		ok2, w := ctx.EstablishedFrom(fn, b.Succs[0], gate.DefaultOutcome(fn), g, map[*ssa.BasicBlock]bool{b: true})
		if ok2 {
			o.OK = true
			o.How = "declared count is not trusted: every iteration passes a consuming decode whose failure leaves the loop, so the trip count is bounded by the input length"
		} else {
			o.How = "loop bounded only by an input-declared count: an iteration can complete without consuming input"
			o.Detail = w
		}
	}
}

// feedsGuardOrBound: the arithmetic result is, within the same function and
// without passing through memory, a phi or a return, an operand of a
// comparison or a slice/index bound.
func feedsGuardOrBound(v ssa.Value, d int) (guard bool, bound bool) {
	if d > 3 {
		return
	}
	for _, ref := range *v.Referrers() {
		switch r := ref.(type) {
		case *ssa.BinOp:
			if r.Op == token.LSS || r.Op == token.LEQ || r.Op == token.GTR || r.Op == token.GEQ || r.Op == token.EQL || r.Op == token.NEQ {
				guard = true
			}
		case *ssa.Slice:
			if r.Low == v || r.High == v {
				bound = true
			}
		case *ssa.IndexAddr:
			if r.Index == v {
				bound = true
			}
		case *ssa.Index:
			if r.Index == v {
				bound = true
			}
		case *ssa.Convert:
			g, b := feedsGuardOrBound(r, d+1)
			guard, bound = guard || g, bound || b
		}
	}
	return
}

// checkArith: U2 — wrap-around of +, -, * on input-declared integers that feed
// a guard or a bound.
func (a *Analysis) checkArith(fn *ssa.Function, b *ssa.BasicBlock, x *ssa.BinOp, add func(string, ssa.Instruction, string) *Obl, boundsSkipped bool) {
	if x.Op != token.ADD && x.Op != token.SUB && x.Op != token.MUL {
		return
	}
	if !a.T[x.X] && !a.T[x.Y] {
		return
	}
	if !isInteger(x.Type()) {
		return
	}
	guard, bound := feedsGuardOrBound(x, 0)
	if boundsSkipped {
		bound = false
	}
	if !guard && !bound {
		return
	}
	o := add("U2", x, "arith("+x.Op.String()+")")
	if ok, how := a.arithOKAt(x, b); ok {
		o.OK, o.How = true, how
		return
	} else {
		o.How = how
	}
	// the result is an SSA value: it is harmless where it is computed, what
	// matters is what is known where it is used (a sum hoisted above the guard
	// that bounds its operands)
	if uses := realUseBlocks(x); len(uses) > 0 {
		all := true
		for _, u := range uses {
			if ok, _ := a.arithOKAt(x, u); !ok {
				all = false
				break
			}
		}
		if all {
			o.OK, o.How = true, "at every use of the result its operands are bounded so that it cannot wrap"
		}
	}
}

func (a *Analysis) arithOKAt(x *ssa.BinOp, b *ssa.BasicBlock) (bool, string) {
	o := &Obl{}
	a.decideArith(o, x, b)
	return o.OK, o.How
}

func (a *Analysis) decideArith(o *Obl, x *ssa.BinOp, b *ssa.BasicBlock) {
	tmax, _ := typeMax(x.Type(), a.Sizes)
	xb, yb := a.Upper(x.X, b), a.Upper(x.Y, b)
	switch x.Op {
	case token.ADD:
		// x + y <= A by the subtraction idiom, for any A
		if why := a.sumWithinAny(x.X, x.Y, b); why != "" {
			o.OK, o.How = true, why
			return
		}
		if why := a.sumWithinAny(x.Y, x.X, b); why != "" {
			o.OK, o.How = true, why
			return
		}
		if xb.Kind == ConstB && yb.Kind == ConstB && xb.C <= tmax/2 && yb.C <= tmax/2 {
			o.OK, o.How = true, "both operands are bounded by constants whose sum fits"
			return
		}
		if (xb.Kind == LenB && yb.Kind == ConstB && yb.C < 1<<16) || (yb.Kind == LenB && xb.Kind == ConstB && xb.C < 1<<16) {
			o.OK, o.How = true, "a length plus a small constant cannot wrap"
			return
		}
		if xb.Kind == LenB && yb.Kind == LenB && tmax >= math.MaxInt64 {
			o.OK, o.How = true, "sum of two lengths fits in 64 bits"
			return
		}
		o.How = "sum of input-declared integers feeds a guard or a bound but may wrap around: the check can pass for an out-of-range value"
	case token.SUB:
		if a.leq(x.Y, x.X, b) {
			o.OK, o.How = true, "subtrahend <= minuend is a dominating guard"
			return
		}
		if c, ok := constOf(x.Y); ok && c <= 1<<16 {
			if lb := a.lowerAtLeast(x.X, c, b); lb {
				o.OK, o.How = true, "minuend is known to be at least the constant subtracted"
				return
			}
		}
		if _, ok := lenOf(x.X); ok && yb.Kind == LenB {
			// len(s) - y with y <= len(s)
			if s, _ := lenOf(x.X); prov.Of(s) == yb.S && yb.C == 0 {
				o.OK, o.How = true, "subtrahend "+yb.String()
				return
			}
		}
		if isSignedType(x.Type()) {
			o.OK, o.How = true, "signed difference; its sign is tested by the guard it feeds"
			return
		}
		o.How = "difference of input-declared unsigned integers feeds a guard or a bound but may wrap below zero"
	case token.MUL:
		if xb.Kind == ConstB && yb.Kind == ConstB && xb.C < 1<<31 && yb.C < 1<<31 {
			o.OK, o.How = true, "both factors are bounded by constants whose product fits"
			return
		}
		if xb.Kind == LenB && strings.Contains(xb.Why, "len/c") {
			if _, ok := constOf(x.Y); ok {
				o.OK, o.How = true, "x <= len/c is a dominating guard, so x*c <= len"
				return
			}
		}
		if yb.Kind == LenB && strings.Contains(yb.Why, "len/c") {
			if _, ok := constOf(x.X); ok {
				o.OK, o.How = true, "x <= len/c is a dominating guard, so c*x <= len"
				return
			}
		}
		o.How = "product of input-declared integers feeds a guard or a bound but may wrap around"
	}
}

func isSignedType(t types.Type) bool {
	b, ok := t.Underlying().(*types.Basic)
	return ok && b.Info()&types.IsInteger != 0 && b.Info()&types.IsUnsigned == 0
}

// lowerAtLeast: a dominating fact says v >= c (or v > c-1).
func (a *Analysis) lowerAtLeast(v ssa.Value, c uint64, b *ssa.BasicBlock) bool {
	for _, f := range domFacts(b) {
		if same(f.x, v) {
			if k, ok := constOf(f.y); ok {
				if (f.op == token.GEQ && k >= c) || (f.op == token.GTR && k+1 >= c) {
					return true
				}
			}
		}
		if same(f.y, v) {
			if k, ok := constOf(f.x); ok {
				if (f.op == token.LEQ && k >= c) || (f.op == token.LSS && k+1 >= c) {
					return true
				}
			}
		}
	}
	return false
}

// sumWithinAny: dominating facts x <= A and y <= A - x for one value A.
func (a *Analysis) sumWithinAny(x, y ssa.Value, b *ssa.BasicBlock) string {
	facts := domFacts(b)
	norm := func(f fact, v ssa.Value) (token.Token, ssa.Value, bool) {
		if same(f.x, v) {
			return f.op, f.y, true
		}
		if same(f.y, v) {
			op := f.op
			switch op {
			case token.GTR:
				op = token.LSS
			case token.GEQ:
				op = token.LEQ
			case token.LSS:
				op = token.GTR
			case token.LEQ:
				op = token.GEQ
			}
			return op, f.x, true
		}
		return 0, nil, false
	}
	for _, fy := range facts {
		op, r, ok := norm(fy, y)
		if !ok || (op != token.LSS && op != token.LEQ) {
			continue
		}
		sub, ok := stripConv(r).(*ssa.BinOp)
		if !ok || sub.Op != token.SUB || !same(sub.Y, x) {
			continue
		}
		A := sub.X
		for _, fx := range facts {
			op2, r2, ok := norm(fx, x)
			if ok && (op2 == token.LSS || op2 == token.LEQ) && same(r2, A) {
				return "x <= A and y <= A-x are dominating guards (A = " + short(prov.Of(A)) + "), so x+y <= A without wrap-around"
			}
		}
	}
	return ""
}

// signTested: x converts an unsigned value to the signed type of the same
// width and every use of the result is either the comparison with zero itself
// or lies where the result is known to be non-negative (length := int64(n);
// if length < 0 { reject }).
func (a *Analysis) signTested(x *ssa.Convert) bool {
	from, ok1 := x.X.Type().Underlying().(*types.Basic)
	to, ok2 := x.Type().Underlying().(*types.Basic)
	if !ok1 || !ok2 || from.Info()&types.IsUnsigned == 0 || to.Info()&types.IsUnsigned != 0 || a.Sizes.Sizeof(from) != a.Sizes.Sizeof(to) {
		return false
	}
	refs := x.Referrers()
	if refs == nil || len(*refs) == 0 {
		return false
	}
	tested := false
	for _, r := range *refs {
		switch y := r.(type) {
		case *ssa.DebugRef:
			continue
		case *ssa.BinOp:
			if c, ok := constOf(y.Y); ok && y.X == ssa.Value(x) && c == 0 && (y.Op == token.LSS || y.Op == token.GEQ) {
				tested = true
				continue
			}
		}
		ub := a.Upper(x, r.Block())
		if ub.Kind != ConstB || ub.Why != "dominating test for non-negativity of a signed value" {
			return false
		}
	}
	return tested
}

// realUseBlocks: the blocks in which the value computed by v is really used:
// uses as an operand of further integer arithmetic or of a conversion only
// derive new values and are followed through; comparisons, calls, stores,
// indexing, slicing and returns are uses.  A use by a phi counts in the
// predecessor the value arrives from.
func realUseBlocks(v ssa.Value) []*ssa.BasicBlock {
	seen := map[ssa.Value]bool{}
	set := map[*ssa.BasicBlock]bool{}
	var out []*ssa.BasicBlock
	add := func(b *ssa.BasicBlock) {
		if b != nil && !set[b] {
			set[b] = true
			out = append(out, b)
		}
	}
	var walk func(v ssa.Value, d int)
	walk = func(v ssa.Value, d int) {
		if d > 6 || seen[v] {
			return
		}
		seen[v] = true
		refs := v.Referrers()
		if refs == nil {
			return
		}
		for _, r := range *refs {
			switch y := r.(type) {
			case *ssa.DebugRef:
			case *ssa.Convert:
				walk(y, d+1)
			case *ssa.ChangeType:
				walk(y, d+1)
			case *ssa.BinOp:
				switch y.Op {
				case token.ADD, token.SUB, token.MUL, token.SHL, token.SHR, token.AND, token.OR:
					walk(y, d+1)
				default:
					add(y.Block())
				}
			case *ssa.Phi:
				for i, ed := range y.Edges {
					if ed == v {
						add(y.Block().Preds[i])
					}
				}
			default:
				add(r.Block())
			}
		}
	}
	walk(v, 0)
	return out
}

// shiftOrAccumulation: p is the accumulator of a loop "n = n<<8 | int(b)" with
// b of type byte, starting at 0, whose header runs a +1 counter against a
// constant bound; returns that bound (the number of iterations).
func shiftOrAccumulation(p *ssa.Phi) (int64, bool) {
	if len(p.Edges) != 2 {
		return 0, false
	}
	zero, upd := false, false
	for _, e := range p.Edges {
		switch x := e.(type) {
		case *ssa.Const:
			if c, ok := constOf(x); ok && c == 0 {
				zero = true
			}
		case *ssa.BinOp:
			if x.Op != token.OR {
				continue
			}
			for _, pair := range [][2]ssa.Value{{x.X, x.Y}, {x.Y, x.X}} {
				sh, ok := pair[0].(*ssa.BinOp)
				if !ok || sh.Op != token.SHL || sh.X != ssa.Value(p) {
					continue
				}
				if c, ok := constOf(sh.Y); !ok || c != 8 {
					continue
				}
				cv, ok := pair[1].(*ssa.Convert)
				if !ok {
					continue
				}
				if bt, ok := cv.X.Type().Underlying().(*types.Basic); ok && bt.Kind() == types.Uint8 {
					upd = true
				}
			}
		}
	}
	if !zero || !upd {
		return 0, false
	}
	ifi, ok := p.Block().Instrs[len(p.Block().Instrs)-1].(*ssa.If)
	if !ok {
		return 0, false
	}
	c, ok := ifi.Cond.(*ssa.BinOp)
	if !ok || c.Op != token.LSS {
		return 0, false
	}
	n, ok := constOf(c.Y)
	if !ok {
		return 0, false
	}
	// the counter: phi(-1|+1) compared after increment (range loop), or phi(0|+1)
	switch x := c.X.(type) {
	case *ssa.BinOp:
		if ph, ok := x.X.(*ssa.Phi); ok && x.Op == token.ADD && ph.Block() == p.Block() {
			return int64(n), true
		}
	case *ssa.Phi:
		if x.Block() == p.Block() {
			return int64(n), true
		}
	}
	return 0, false
}
