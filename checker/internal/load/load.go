// Package load builds the program model (E1): type-checked packages of /repo,
// SSA, call graph (VTA seeded by CHA) and a few indexes used by every engine.
package load

import (
	"fmt"
	"go/token"
	"go/types"
	"os"
	"sort"
	"strings"

	"golang.org/x/tools/go/callgraph"
	"golang.org/x/tools/go/callgraph/cha"
	"golang.org/x/tools/go/callgraph/vta"
	"golang.org/x/tools/go/packages"
	"golang.org/x/tools/go/ssa"
	"golang.org/x/tools/go/ssa/ssautil"
)

const ModulePath = "github.com/WICG/webpackage"

// MinPackages is the number of packages of the module on the pinned tree
// (21).  Fewer means part of the build was not seen: hard failure.
const MinPackages = 21

type Program struct {
	RepoDir string
	GOARCH  string
	Fset    *token.FileSet
	Pkgs    []*packages.Package // module packages only, sorted by path
	Prog    *ssa.Program
	SSAPkgs map[string]*ssa.Package // by import path
	// Funcs: every function with a body that belongs to the module
	// (including anonymous functions and methods), sorted by name.
	Funcs  []*ssa.Function
	byName map[string]*ssa.Function
	looked map[*ssa.Function]bool
	cgVTA  *callgraph.Graph
	cgCHA  *callgraph.Graph
	Sizes  types.Sizes
	// UseCHA makes VTA() return the (coarser) CHA graph: used by the thorough
	// tier to re-run scope-defining reachability on a strictly larger graph.
	UseCHA bool
}

// Load type-checks ./... in repoDir and builds SSA for the whole program.
func Load(repoDir, goarch string) (*Program, error) {
	env := append(os.Environ(),
		"GOFLAGS=-mod=mod", "GOPROXY=off", "GOSUMDB=off", "GOTOOLCHAIN=local", "GOWORK=off", "CGO_ENABLED=0")
	if goarch != "" {
		env = append(env, "GOARCH="+goarch)
	}
	cfg := &packages.Config{
		Mode:  packages.LoadAllSyntax,
		Dir:   repoDir,
		Env:   env,
		Tests: false,
	}
	initial, err := packages.Load(cfg, "./...")
	if err != nil {
		return nil, fmt.Errorf("packages.Load: %v", err)
	}
	var errs []string
	packages.Visit(initial, nil, func(p *packages.Package) {
		for _, e := range p.Errors {
			errs = append(errs, e.Error())
		}
	})
	if len(errs) > 0 {
		return nil, fmt.Errorf("load/type errors: %s", strings.Join(errs, "; "))
	}
	p := &Program{RepoDir: repoDir, GOARCH: goarch, SSAPkgs: map[string]*ssa.Package{}, byName: map[string]*ssa.Function{}}
	for _, pk := range initial {
		if strings.HasPrefix(pk.PkgPath, ModulePath) {
			p.Pkgs = append(p.Pkgs, pk)
		}
	}
	sort.Slice(p.Pkgs, func(i, j int) bool { return p.Pkgs[i].PkgPath < p.Pkgs[j].PkgPath })
	if len(p.Pkgs) < MinPackages {
		return nil, fmt.Errorf("only %d packages of %s were loaded, expected at least %d", len(p.Pkgs), ModulePath, MinPackages)
	}
	p.Fset = initial[0].Fset
	p.Sizes = initial[0].TypesSizes
	prog, _ := ssautil.AllPackages(initial, ssa.InstantiateGenerics)
	prog.Build()
	p.Prog = prog
	for _, pk := range p.Pkgs {
		sp := prog.Package(pk.Types)
		if sp == nil {
			return nil, fmt.Errorf("no SSA package for %s", pk.PkgPath)
		}
		p.SSAPkgs[pk.PkgPath] = sp
	}
	for fn := range ssautil.AllFunctions(prog) {
		if fn.Blocks == nil || !p.InModule(fn) {
			continue
		}
		p.Funcs = append(p.Funcs, fn)
	}
	sort.Slice(p.Funcs, func(i, j int) bool { return FuncName(p.Funcs[i]) < FuncName(p.Funcs[j]) })
	for _, fn := range p.Funcs {
		p.byName[FuncName(fn)] = fn
	}
	return p, nil
}

// InModule reports whether fn is defined in the module under analysis.
// InModulePkg: the package belongs to the module under analysis.
func (p *Program) InModulePkg(pkg *ssa.Package) bool {
	return pkg != nil && pkg.Pkg != nil && strings.HasPrefix(pkg.Pkg.Path(), ModulePath)
}

func (p *Program) InModule(fn *ssa.Function) bool {
	for fn.Parent() != nil {
		fn = fn.Parent()
	}
	if fn.Pkg == nil {
		// synthetic wrappers/bound methods: attribute to the object's package
		if fn.Object() != nil && fn.Object().Pkg() != nil {
			return strings.HasPrefix(fn.Object().Pkg().Path(), ModulePath)
		}
		return false
	}
	return strings.HasPrefix(fn.Pkg.Pkg.Path(), ModulePath)
}

// IsLibrary reports whether fn belongs to a library package of the module
// (not a main package, not the test helper).
func (p *Program) IsLibrary(fn *ssa.Function) bool {
	if !p.InModule(fn) {
		return false
	}
	pk := PkgOf(fn)
	if pk == nil {
		return false
	}
	if pk.Pkg.Name() == "main" || strings.HasSuffix(pk.Pkg.Path(), "/internal/testhelper") {
		return false
	}
	return true
}

func PkgOf(fn *ssa.Function) *ssa.Package {
	for fn.Parent() != nil {
		fn = fn.Parent()
	}
	return fn.Pkg
}

// FuncName is the stable name used in obligation keys: the package path
// relative to the module's go/ directory plus the SSA relative name, e.g.
// "signedexchange.(*Exchange).Verify" or "bundle.parseIndexSection$1".
func FuncName(fn *ssa.Function) string {
	if fn == nil {
		return "<nil>"
	}
	pk := PkgOf(fn)
	if pk == nil {
		return fn.String()
	}
	return ShortPkg(pk.Pkg.Path()) + "." + fn.RelString(pk.Pkg)
}

// ShortPkg strips the module prefix: github.com/WICG/webpackage/go/bundle/version -> bundle/version.
func ShortPkg(path string) string {
	s := strings.TrimPrefix(path, ModulePath+"/go/")
	s = strings.TrimPrefix(s, ModulePath+"/")
	return s
}

// Func looks a module function up by its FuncName; nil if absent.
func (p *Program) Func(name string) *ssa.Function {
	f := p.byName[name]
	p.note(f)
	return f
}

func (p *Program) note(f *ssa.Function) {
	if f == nil {
		return
	}
	if p.looked == nil {
		p.looked = map[*ssa.Function]bool{}
	}
	p.looked[f] = true
}

// Looked returns the functions the rules looked up by name so far: the
// anchors of the property being checked.
func (p *Program) Looked() []*ssa.Function {
	var out []*ssa.Function
	for f := range p.looked {
		out = append(out, f)
	}
	return out
}

// MustFunc is Func but records the lookup failure on the caller's behalf.
func (p *Program) FuncOK(name string) (*ssa.Function, bool) {
	f, ok := p.byName[name]
	p.note(f)
	return f, ok
}

// VTA returns the VTA call graph (seeded with CHA), built once.
func (p *Program) VTA() *callgraph.Graph {
	if p.UseCHA {
		return p.CHA()
	}
	if p.cgVTA == nil {
		p.cgVTA = vta.CallGraph(ssautil.AllFunctions(p.Prog), p.CHA())
	}
	return p.cgVTA
}

func (p *Program) CHA() *callgraph.Graph {
	if p.cgCHA == nil {
		p.cgCHA = cha.CallGraph(p.Prog)
	}
	return p.cgCHA
}

// Pos renders a position relative to the repository root.
func (p *Program) Pos(pos token.Pos) string {
	if !pos.IsValid() {
		return "-"
	}
	ps := p.Fset.Position(pos)
	f := strings.TrimPrefix(ps.Filename, p.RepoDir+"/")
	return fmt.Sprintf("%s:%d", f, ps.Line)
}

// InstrPos returns the best available position for an instruction.
func (p *Program) InstrPos(in ssa.Instruction) string {
	if in == nil {
		return "-"
	}
	if in.Pos().IsValid() {
		return p.Pos(in.Pos())
	}
	// fall back to any operand or the block's first positioned instruction
	if b := in.Block(); b != nil {
		for _, i2 := range b.Instrs {
			if i2.Pos().IsValid() {
				return p.Pos(i2.Pos()) + "~"
			}
		}
	}
	return p.Pos(in.Parent().Pos()) + "~"
}

// Callees returns the in-graph callees of a call instruction according to g,
// sorted by name.
func Callees(g *callgraph.Graph, site ssa.CallInstruction) []*ssa.Function {
	n := g.Nodes[site.Parent()]
	if n == nil {
		return nil
	}
	seen := map[*ssa.Function]bool{}
	var out []*ssa.Function
	for _, e := range n.Out {
		if e.Site == site && e.Callee != nil && e.Callee.Func != nil && !seen[e.Callee.Func] {
			seen[e.Callee.Func] = true
			out = append(out, e.Callee.Func)
		}
	}
	sort.Slice(out, func(i, j int) bool { return out[i].String() < out[j].String() })
	return out
}

// ModuleCallees resolves a call site to module functions with bodies:
// the static callee if there is one, otherwise the call-graph targets
// restricted to the module.  Closures called through a value are resolved by
// the call graph as well.
func (p *Program) ModuleCallees(g *callgraph.Graph, site ssa.CallInstruction) []*ssa.Function {
	if sc := site.Common().StaticCallee(); sc != nil {
		if sc.Blocks != nil && p.InModule(sc) {
			return []*ssa.Function{sc}
		}
		return nil
	}
	var out []*ssa.Function
	for _, f := range Callees(g, site) {
		if f.Blocks != nil && p.InModule(f) {
			out = append(out, f)
		}
	}
	return out
}

// Reachable returns the module functions reachable from roots following g,
// where edges out of non-module functions are followed too (callbacks), but
// only module functions are returned.
func (p *Program) Reachable(g *callgraph.Graph, roots ...*ssa.Function) map[*ssa.Function]bool {
	seen := map[*ssa.Function]bool{}
	var stack []*ssa.Function
	for _, r := range roots {
		if r != nil && !seen[r] {
			seen[r] = true
			stack = append(stack, r)
		}
	}
	for len(stack) > 0 {
		f := stack[len(stack)-1]
		stack = stack[:len(stack)-1]
		// anonymous functions defined in f are considered reachable with f
		for _, af := range f.AnonFuncs {
			if !seen[af] {
				seen[af] = true
				stack = append(stack, af)
			}
		}
		if p.InModule(f) {
			for _, c := range p.callbackTargets(f) {
				if !seen[c] {
					seen[c] = true
					stack = append(stack, c)
				}
			}
		}
		n := g.Nodes[f]
		if n == nil {
			continue
		}
		for _, e := range n.Out {
			c := e.Callee.Func
			if c == nil || seen[c] {
				continue
			}
			// A call through a function-typed parameter (GenerateMapEntry's f,
			// a fetch callback) is attributed to the call site that passed the
			// function: closures are reachable with the function that creates
			// them, not with every function that calls "some closure".
			if e.Site != nil && CallsParameter(e.Site) {
				continue
			}
			// Only follow edges that start in the module: callbacks from
			// library code back into the module are attributed by the call
			// graph to the library caller and blur scopes (DESIGN 3.2).
			if !p.InModule(f) {
				continue
			}
			seen[c] = true
			stack = append(stack, c)
		}
	}
	out := map[*ssa.Function]bool{}
	for f := range seen {
		if p.InModule(f) && f.Blocks != nil {
			out[f] = true
		}
	}
	return out
}

// callbackTargets re-attaches callbacks to the in-module call site that passed
// the value (DESIGN 3.2 item 3): for every call in f to a function outside the
// module, each argument of interface type contributes the methods (named in
// the formal parameter's interface) of the concrete module types that reach
// the argument by a local backward slice; function-valued arguments
// contribute the function itself.
func (p *Program) callbackTargets(f *ssa.Function) []*ssa.Function {
	var out []*ssa.Function
	for _, b := range f.Blocks {
		for _, in := range b.Instrs {
			site, ok := in.(ssa.CallInstruction)
			if !ok {
				continue
			}
			cc := site.Common()
			var sig *types.Signature
			if cc.IsInvoke() {
				// invoke on an interface: in-module targets are call-graph edges
				// starting in the module; nothing to re-attach.
				continue
			}
			if sc := cc.StaticCallee(); sc != nil {
				if p.InModule(sc) {
					continue
				}
				sig = sc.Signature
			} else {
				continue
			}
			params := sig.Params()
			for i, a := range cc.Args {
				idx := i
				if sig.Recv() != nil {
					idx = i - 1
				}
				var formal types.Type
				if idx >= 0 && idx < params.Len() {
					formal = params.At(idx).Type()
				} else if sig.Variadic() && params.Len() > 0 {
					formal = params.At(params.Len() - 1).Type()
				} else if idx < 0 && sig.Recv() != nil {
					formal = sig.Recv().Type()
				}
				out = append(out, p.valueTargets(a, formal, map[ssa.Value]bool{})...)
			}
		}
	}
	return out
}

func (p *Program) valueTargets(v ssa.Value, formal types.Type, seen map[ssa.Value]bool) []*ssa.Function {
	if seen[v] {
		return nil
	}
	seen[v] = true
	var out []*ssa.Function
	switch x := v.(type) {
	case *ssa.Function:
		if p.InModule(x) {
			out = append(out, x)
		}
	case *ssa.MakeClosure:
		if fn, ok := x.Fn.(*ssa.Function); ok && p.InModule(fn) {
			out = append(out, fn)
		}
	case *ssa.MakeInterface:
		out = append(out, p.methodsFor(x.X.Type(), formal)...)
	case *ssa.ChangeInterface:
		out = append(out, p.valueTargets(x.X, formal, seen)...)
	case *ssa.ChangeType:
		out = append(out, p.valueTargets(x.X, formal, seen)...)
	case *ssa.Phi:
		for _, e := range x.Edges {
			out = append(out, p.valueTargets(e, formal, seen)...)
		}
	case *ssa.Extract:
		if c, ok := x.Tuple.(*ssa.Call); ok {
			out = append(out, p.callResultTargets(c, x.Index, formal, seen)...)
		}
	case *ssa.Call:
		out = append(out, p.callResultTargets(x, 0, formal, seen)...)
	default:
		// parameter, load, ...: fall back to every module type that
		// implements the formal interface (CHA-like, over-approximate).
		if _, isIface := v.Type().Underlying().(*types.Interface); isIface {
			for _, t := range p.Prog.RuntimeTypes() {
				if types.AssignableTo(t, v.Type()) {
					out = append(out, p.methodsFor(t, formal)...)
				}
			}
		}
	}
	return out
}

func (p *Program) callResultTargets(c *ssa.Call, idx int, formal types.Type, seen map[ssa.Value]bool) []*ssa.Function {
	var out []*ssa.Function
	callees := []*ssa.Function{}
	if sc := c.Call.StaticCallee(); sc != nil {
		callees = append(callees, sc)
	} else {
		callees = Callees(p.VTA(), c)
	}
	for _, callee := range callees {
		if callee.Blocks == nil || !p.InModule(callee) {
			continue
		}
		for _, b := range callee.Blocks {
			if r, ok := b.Instrs[len(b.Instrs)-1].(*ssa.Return); ok && idx < len(r.Results) {
				out = append(out, p.valueTargets(r.Results[idx], formal, seen)...)
			}
		}
	}
	return out
}

// methodsFor returns the module methods of concrete type t that implement the
// methods of the interface type formal (all methods of t if formal is not an
// interface with methods).
func (p *Program) methodsFor(t types.Type, formal types.Type) []*ssa.Function {
	var out []*ssa.Function
	ms := p.Prog.MethodSets.MethodSet(t)
	var want map[string]bool
	if formal != nil {
		if it, ok := formal.Underlying().(*types.Interface); ok && it.NumMethods() > 0 {
			want = map[string]bool{}
			for i := 0; i < it.NumMethods(); i++ {
				want[it.Method(i).Name()] = true
			}
		}
	}
	for i := 0; i < ms.Len(); i++ {
		sel := ms.At(i)
		if want != nil && !want[sel.Obj().Name()] {
			// io.Copy & co. also probe for WriterTo/ReaderFrom
			n := sel.Obj().Name()
			if n != "WriteTo" && n != "ReadFrom" {
				continue
			}
		}
		if fn := p.Prog.MethodValue(sel); fn != nil && p.InModule(fn) && fn.Blocks != nil {
			out = append(out, fn)
		}
	}
	return out
}

// CallsParameter reports whether the call site invokes a function value that
// is a parameter (or a free variable) of the enclosing function.
func CallsParameter(site ssa.CallInstruction) bool {
	cc := site.Common()
	if cc.IsInvoke() {
		return false
	}
	switch v := cc.Value.(type) {
	case *ssa.Parameter:
		return true
	case *ssa.UnOp:
		_, isFree := v.X.(*ssa.FreeVar)
		return isFree
	}
	return false
}
