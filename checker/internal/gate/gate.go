// Package gate implements E2: must-pass-through ("cut") analysis.
//
// Question: is there a path in the CFG of F from the entry to an exit with the
// designated outcome (error result nil, bool result true, ...) that avoids
// every edge/instruction establishing gate G?  If yes, G is not a gate of F and
// the path is the witness.  Calls to module functions whose outcome is tested
// contribute the callee's summary (G established on all of the callee's exits
// with that outcome), computed recursively with memoisation (greatest fixpoint
// on recursion).
package gate

import (
	"fmt"
	"go/constant"
	"go/token"
	"go/types"
	"math"
	"sort"
	"strconv"
	"strings"
	"sync"

	"golang.org/x/tools/go/callgraph"
	"golang.org/x/tools/go/ssa"

	"wpverif/internal/load"
	"wpverif/internal/prov"
)

// ---------------------------------------------------------------- facts

type FactKind int

const (
	FCmp    FactKind = iota // X Op Y holds
	FErrNil                 // the error result of Call is nil
	FErrSet                 // the error result of Call is non-nil
	FBool                   // bool value V (a call result or other value) equals Val
)

// Fact is something known to hold on a CFG edge (or at an exit).
type Fact struct {
	Kind FactKind
	Op   token.Token
	X, Y ssa.Value
	Call *ssa.Call // FErrNil/FErrSet, and FBool when V stems from a call
	V    ssa.Value
	Val  bool
}

func (f Fact) String() string {
	switch f.Kind {
	case FCmp:
		return fmt.Sprintf("%s %s %s", prov.Of(f.X), f.Op, prov.Of(f.Y))
	case FErrNil:
		return "ok(" + prov.Of(f.Call) + ")"
	case FErrSet:
		return "failed(" + prov.Of(f.Call) + ")"
	default:
		return fmt.Sprintf("%s == %v", prov.Of(f.V), f.Val)
	}
}

func negate(op token.Token) token.Token {
	switch op {
	case token.EQL:
		return token.NEQ
	case token.NEQ:
		return token.EQL
	case token.LSS:
		return token.GEQ
	case token.GEQ:
		return token.LSS
	case token.GTR:
		return token.LEQ
	case token.LEQ:
		return token.GTR
	}
	return token.ILLEGAL
}

func swap(op token.Token) token.Token {
	switch op {
	case token.LSS:
		return token.GTR
	case token.GTR:
		return token.LSS
	case token.LEQ:
		return token.GEQ
	case token.GEQ:
		return token.LEQ
	}
	return op
}

func isCompare(op token.Token) bool {
	switch op {
	case token.EQL, token.NEQ, token.LSS, token.LEQ, token.GTR, token.GEQ:
		return true
	}
	return false
}

func isNilConst(v ssa.Value) bool {
	c, ok := v.(*ssa.Const)
	return ok && c.Value == nil
}

func isErrorType(t types.Type) bool {
	return types.Identical(t, types.Universe.Lookup("error").Type())
}

// callOf returns the call a value is a (component of the) result of.
func callOf(v ssa.Value) (*ssa.Call, int) {
	switch x := v.(type) {
	case *ssa.Call:
		return x, 0
	case *ssa.Extract:
		if c, ok := x.Tuple.(*ssa.Call); ok {
			return c, x.Index
		}
	}
	return nil, 0
}

// EdgeFacts decodes what is known when cond evaluates to branch.
func EdgeFacts(cond ssa.Value, branch bool) []Fact {
	for {
		u, ok := cond.(*ssa.UnOp)
		if !ok || u.Op != token.NOT {
			break
		}
		cond = u.X
		branch = !branch
	}
	var out []Fact
	switch x := cond.(type) {
	case *ssa.BinOp:
		if !isCompare(x.Op) {
			break
		}
		op := x.Op
		if !branch {
			op = negate(op)
		}
		out = append(out, Fact{Kind: FCmp, Op: op, X: x.X, Y: x.Y})
		// len(s) == 0 (or <= 0) says s == "" for a string s; != 0 and > 0 say s != ""
		if s := lenOfString(x.X); s != nil && isZeroInt(x.Y) {
			switch op {
			case token.EQL, token.LEQ:
				out = append(out, Fact{Kind: FCmp, Op: token.EQL, X: s, Y: ssa.NewConst(constant.MakeString(""), s.Type())})
			case token.NEQ, token.GTR:
				out = append(out, Fact{Kind: FCmp, Op: token.NEQ, X: s, Y: ssa.NewConst(constant.MakeString(""), s.Type())})
			}
		}
		if op == token.EQL || op == token.NEQ {
			other := ssa.Value(nil)
			if isNilConst(x.Y) {
				other = x.X
			} else if isNilConst(x.X) {
				other = x.Y
			}
			if other != nil && isErrorType(other.Type()) {
				if c, _ := callOf(other); c != nil {
					k := FErrNil
					if op == token.NEQ {
						k = FErrSet
					}
					out = append(out, Fact{Kind: k, Call: c})
				}
			}
			// b == true / b == false
			if cst, ok := x.Y.(*ssa.Const); ok && cst.Value != nil && cst.Value.Kind() == constant.Bool {
				val := constant.BoolVal(cst.Value)
				if op == token.NEQ {
					val = !val
				}
				c, _ := callOf(x.X)
				out = append(out, Fact{Kind: FBool, V: x.X, Call: c, Val: val})
			}
		}
	default:
		c, _ := callOf(cond)
		out = append(out, Fact{Kind: FBool, V: cond, Call: c, Val: branch})
	}
	return out
}

func lenOfString(v ssa.Value) ssa.Value {
	c, ok := v.(*ssa.Call)
	if !ok || len(c.Call.Args) != 1 {
		return nil
	}
	b, ok := c.Call.Value.(*ssa.Builtin)
	if !ok || b.Name() != "len" {
		return nil
	}
	if t, ok := c.Call.Args[0].Type().Underlying().(*types.Basic); ok && t.Info()&types.IsString != 0 {
		return c.Call.Args[0]
	}
	return nil
}

func isZeroInt(v ssa.Value) bool {
	k, ok := v.(*ssa.Const)
	return ok && k.Value != nil && k.Value.Kind() == constant.Int && constant.Sign(k.Value) == 0
}

// ---------------------------------------------------------------- gates

// Gate is a predicate that must have been evaluated and found to hold.
// It is established by an edge carrying a matching fact, or by executing a
// matching instruction.
type Gate struct {
	Key   string
	Desc  string
	Edge  func(Fact) bool
	Instr func(ssa.Instruction) bool
}

// Any builds a gate established by any of the alternatives.
func Any(key, desc string, gs ...Gate) Gate {
	return Gate{Key: key, Desc: desc,
		Edge: func(f Fact) bool {
			for _, g := range gs {
				if g.Edge != nil && g.Edge(f) {
					return true
				}
			}
			return false
		},
		Instr: func(in ssa.Instruction) bool {
			for _, g := range gs {
				if g.Instr != nil && g.Instr(in) {
					return true
				}
			}
			return false
		}}
}

func argsMatch(c *ssa.CallCommon, pats []string) bool {
	var args []ssa.Value
	if c.IsInvoke() {
		args = append(args, c.Value)
	}
	args = append(args, c.Args...)
	for i, p := range pats {
		if p == "" || p == "*" {
			continue
		}
		if i >= len(args) {
			return false
		}
		if !prov.Match(p, prov.Of(args[i])) {
			return false
		}
	}
	return true
}

// callMatches: the call is to callee with matching arguments, either as it is
// written or in its canonical form: writing a string is writing its bytes
// (io.WriteString(w, s) = w.Write([]byte(s)), b.WriteString(s) =
// b.Write([]byte(s)), for any writer).
func callMatches(c *ssa.CallCommon, callee string, pats []string) bool {
	name := prov.CalleeName(c)
	if prov.Match(callee, name) && argsMatch(c, pats) {
		return true
	}
	var alias string
	var terms []string
	switch {
	case name == "io.WriteString" && len(c.Args) == 2:
		alias = "invoke:io.Writer.Write"
		terms = []string{prov.Of(c.Args[0]), "conv(" + prov.Of(c.Args[1]) + ")"}
	case strings.HasSuffix(name, ").WriteString") && len(c.Args) == 2 && !c.IsInvoke():
		alias = strings.TrimSuffix(name, "String")
		terms = []string{prov.Of(c.Args[0]), "conv(" + prov.Of(c.Args[1]) + ")"}
	case (name == "(*bytes.Buffer).WriteTo" || name == "(*bytes.Reader).WriteTo") && len(c.Args) == 2:
		// buf.WriteTo(w) drains buf into w exactly as io.Copy(w, buf) does
		alias = "io.Copy"
		terms = []string{prov.Of(c.Args[1]), prov.Of(c.Args[0])}
	case name == "invoke:io.StringWriter.WriteString" && len(c.Args) == 1:
		alias = "invoke:io.Writer.Write"
		terms = []string{prov.Of(c.Value), "conv(" + prov.Of(c.Args[0]) + ")"}
	case name == "builtin:append" && len(c.Args) == 2 && len(pats) >= 1 && strings.HasPrefix(pats[0], "local:") && LocalByteAcc(c.Args[0]):
		// output built by appending to a local byte slice instead of writing to
		// a local bytes.Buffer: append(acc, x...) = buf.Write(x),
		// append(acc, s...) = buf.WriteString(s), append(acc, b) = buf.WriteByte(b)
		recv := pats[0]
		if strings.ContainsAny(recv, "*{|") {
			recv = "local:buf"
		}
		if b, ok := c.Args[1].Type().Underlying().(*types.Basic); ok && b.Info()&types.IsString != 0 {
			if prov.Match(callee, "(*bytes.Buffer).WriteString") {
				alias = "(*bytes.Buffer).WriteString"
				terms = []string{recv, prov.Of(c.Args[1])}
			} else {
				alias = "(*bytes.Buffer).Write"
				terms = []string{recv, "conv(" + prov.Of(c.Args[1]) + ")"}
			}
		} else if el := varargElems(c.Args[1]); len(el) == 1 {
			alias = "(*bytes.Buffer).WriteByte"
			terms = []string{recv, prov.Of(el[0])}
		} else if el == nil {
			alias = "(*bytes.Buffer).Write"
			terms = []string{recv, prov.Of(c.Args[1])}
		} else {
			return false
		}
	default:
		return false
	}
	if !prov.Match(callee, alias) {
		return false
	}
	for i, p := range pats {
		if p == "" || p == "*" {
			continue
		}
		if i >= len(terms) || !prov.Match(p, terms[i]) {
			return false
		}
	}
	return true
}

// LocalByteAcc: v is a byte slice built up locally: a make([]byte, ...), a nil
// or empty []byte, x[:0] of such, an append to such, or a merge of those.
func LocalByteAcc(v ssa.Value) bool {
	return localByteAcc(v, 0, map[ssa.Value]bool{})
}

func localByteAcc(v ssa.Value, d int, seen map[ssa.Value]bool) bool {
	if d > 12 {
		return false
	}
	if seen[v] {
		return true
	}
	seen[v] = true
	sl, ok := v.Type().Underlying().(*types.Slice)
	if !ok {
		return false
	}
	if b, ok := sl.Elem().Underlying().(*types.Basic); !ok || b.Kind() != types.Uint8 {
		return false
	}
	switch x := v.(type) {
	case *ssa.MakeSlice:
		return true
	case *ssa.Const:
		return x.IsNil()
	case *ssa.Slice:
		if _, isAlloc := x.X.(*ssa.Alloc); isAlloc {
			return true // a fresh backing array ([]byte{} or make with constant size)
		}
		return localByteAcc(x.X, d+1, seen)
	case *ssa.Phi:
		for _, e := range x.Edges {
			if !localByteAcc(e, d+1, seen) {
				return false
			}
		}
		return true
	case *ssa.Call:
		if bi, ok := x.Call.Value.(*ssa.Builtin); ok && bi.Name() == "append" && len(x.Call.Args) == 2 {
			return localByteAcc(x.Call.Args[0], d+1, seen)
		}
	}
	return false
}

// varargElems: the explicit elements of a variadic argument (nil when the
// argument is a spread slice x...).
func varargElems(v ssa.Value) []ssa.Value {
	sl, ok := v.(*ssa.Slice)
	if !ok {
		return nil
	}
	al, ok := sl.X.(*ssa.Alloc)
	if !ok || al.Comment != "varargs" || al.Referrers() == nil {
		return nil
	}
	var out []ssa.Value
	for _, r := range *al.Referrers() {
		ia, ok := r.(*ssa.IndexAddr)
		if !ok || ia.Referrers() == nil {
			continue
		}
		for _, rr := range *ia.Referrers() {
			if st, ok := rr.(*ssa.Store); ok && st.Addr == ia {
				out = append(out, st.Val)
			}
		}
	}
	if out == nil {
		out = []ssa.Value{}
	}
	return out
}

// CallOK: the call to callee (resolved name, glob allowed) returned a nil
// error; args are provenance patterns for receiver+arguments ("" = any).
func CallOK(key, callee string, args ...string) Gate {
	return Gate{Key: key, Desc: "ok(" + callee + "(" + strings.Join(args, ",") + "))",
		Edge: func(f Fact) bool {
			return f.Kind == FErrNil && callMatches(&f.Call.Call, callee, args)
		},
		// a callee that cannot report failure (no error among its results) has
		// succeeded once it has been executed
		Instr: func(in ssa.Instruction) bool {
			c, ok := in.(*ssa.Call)
			if !ok || !callMatches(&c.Call, callee, args) {
				return false
			}
			return !hasErrorResult(c.Call.Signature())
		}}
}

func hasErrorResult(sig *types.Signature) bool {
	if sig == nil {
		return true
	}
	for i := 0; i < sig.Results().Len(); i++ {
		if types.Identical(sig.Results().At(i).Type(), types.Universe.Lookup("error").Type()) {
			return true
		}
	}
	return false
}

// CallBool: the bool result of the call equals want.
func CallBool(key, callee string, want bool, args ...string) Gate {
	return Gate{Key: key, Desc: fmt.Sprintf("%s(%s) == %v", callee, strings.Join(args, ","), want),
		Edge: func(f Fact) bool {
			return f.Kind == FBool && f.Call != nil && f.Val == want &&
				callMatches(&f.Call.Call, callee, args)
		}}
}

// Cmp: the relation x op y holds (operands by provenance pattern).  The
// mirrored form y swap(op) x matches too; negated forms are normalised by
// EdgeFacts.
func Cmp(key, x string, op token.Token, y string) Gate {
	return Gate{Key: key, Desc: x + " " + op.String() + " " + y,
		Edge: func(f Fact) bool {
			if f.Kind != FCmp {
				return false
			}
			if f.Op == op && prov.Match(x, prov.Of(f.X)) && prov.Match(y, prov.Of(f.Y)) {
				return true
			}
			if f.Op == swap(op) && prov.Match(x, prov.Of(f.Y)) && prov.Match(y, prov.Of(f.X)) {
				return true
			}
			// the same integer set written with another operator: x < 2 / x <= 1,
			// len(s) == 0 / len(s) < 1, n != 0 / n > 0 (non-negative n)
			if want, ok := constOfPattern(y); ok {
				if k, ok := f.Y.(*ssa.Const); ok && k.Value != nil && k.Value.Kind() == constant.Int && prov.Match(x, prov.Of(f.X)) {
					if got, exact := constant.Int64Val(k.Value); exact && sameIntSet(op, want, f.Op, got, nonNegative(f.X)) {
						return true
					}
				}
				if k, ok := f.X.(*ssa.Const); ok && k.Value != nil && k.Value.Kind() == constant.Int && prov.Match(x, prov.Of(f.Y)) {
					if got, exact := constant.Int64Val(k.Value); exact && sameIntSet(op, want, swap(f.Op), got, nonNegative(f.Y)) {
						return true
					}
				}
			}
			return false
		}}
}

func constOfPattern(p string) (int64, bool) {
	if !strings.HasPrefix(p, "const:") {
		return 0, false
	}
	n, err := strconv.ParseInt(strings.TrimPrefix(p, "const:"), 10, 64)
	return n, err == nil
}

// nonNegative: v is an unsigned integer or a length.
func nonNegative(v ssa.Value) bool {
	if b, ok := v.Type().Underlying().(*types.Basic); ok && b.Info()&types.IsUnsigned != 0 {
		return true
	}
	if c, ok := v.(*ssa.Call); ok {
		if bi, ok := c.Call.Value.(*ssa.Builtin); ok && (bi.Name() == "len" || bi.Name() == "cap") {
			return true
		}
	}
	return false
}

// sameIntSet: {v | v op1 c1} == {v | v op2 c2} over the integers (over the
// non-negative integers when nonneg).
func sameIntSet(op1 token.Token, c1 int64, op2 token.Token, c2 int64, nonneg bool) bool {
	type iv struct {
		kind int // 0: v < hi ; 1: v > lo ; 2: v == c ; 3: v != c
		c    int64
	}
	norm := func(op token.Token, c int64) (iv, bool) {
		switch op {
		case token.LSS:
			if nonneg && c == 1 {
				return iv{2, 0}, true
			}
			return iv{0, c}, true
		case token.LEQ:
			if c == math.MaxInt64 {
				return iv{}, false
			}
			if nonneg && c == 0 {
				return iv{2, 0}, true
			}
			return iv{0, c + 1}, true
		case token.GTR:
			if nonneg && c == 0 {
				return iv{3, 0}, true
			}
			return iv{1, c}, true
		case token.GEQ:
			if c == math.MinInt64 {
				return iv{}, false
			}
			if nonneg && c == 1 {
				return iv{3, 0}, true
			}
			return iv{1, c - 1}, true
		case token.EQL:
			return iv{2, c}, true
		case token.NEQ:
			return iv{3, c}, true
		}
		return iv{}, false
	}
	a, ok1 := norm(op1, c1)
	b, ok2 := norm(op2, c2)
	return ok1 && ok2 && a == b
}

// BoolVal: a bool value with the given provenance equals want.
func BoolVal(key, pat string, want bool) Gate {
	return Gate{Key: key, Desc: fmt.Sprintf("%s == %v", pat, want),
		Edge: func(f Fact) bool {
			return f.Kind == FBool && f.Val == want && prov.Match(pat, prov.Of(f.V))
		}}
}

// CallInstr: a call instruction to callee with matching args is executed.
func CallInstr(key, callee string, args ...string) Gate {
	return Gate{Key: key, Desc: "exec " + callee + "(" + strings.Join(args, ",") + ")",
		Instr: func(in ssa.Instruction) bool {
			c, ok := in.(ssa.CallInstruction)
			if !ok {
				return false
			}
			return callMatches(c.Common(), callee, args)
		}}
}

// ---------------------------------------------------------------- outcomes

type OutcomeKind int

const (
	ErrNil    OutcomeKind = iota // result Idx (error) may be nil
	BoolTrue                     // result Idx (bool) may be true
	BoolFalse                    // result Idx may be false
	AnyReturn                    // any normal return
	NonNil                       // result Idx (pointer/slice/interface) may be non-nil
	NoExit                       // no return counts as an exit (only stop blocks matter)
)

type Outcome struct {
	Kind OutcomeKind
	Idx  int
}

func (o Outcome) String() string {
	switch o.Kind {
	case ErrNil:
		return fmt.Sprintf("ret[%d]==nil", o.Idx)
	case BoolTrue:
		return fmt.Sprintf("ret[%d]==true", o.Idx)
	case BoolFalse:
		return fmt.Sprintf("ret[%d]==false", o.Idx)
	case NonNil:
		return fmt.Sprintf("ret[%d]!=nil", o.Idx)
	case NoExit:
		return "<no exit>"
	}
	return "return"
}

// DefaultOutcome: "success" of fn — nil error if the last result is an error,
// true if the last result is a bool, any return otherwise.
func DefaultOutcome(fn *ssa.Function) Outcome {
	res := fn.Signature.Results()
	if res.Len() == 0 {
		return Outcome{Kind: AnyReturn}
	}
	last := res.At(res.Len() - 1).Type()
	if isErrorType(last) {
		return Outcome{Kind: ErrNil, Idx: res.Len() - 1}
	}
	if b, ok := last.Underlying().(*types.Basic); ok && b.Kind() == types.Bool {
		return Outcome{Kind: BoolTrue, Idx: res.Len() - 1}
	}
	return Outcome{Kind: AnyReturn}
}

// ---------------------------------------------------------------- assumptions

// Assumption folds branches for one value of a discriminator: every non-constant
// value whose type is TypeName (or whose provenance matches ProvPat) equals the
// constant Value (rendered as by prov: "\"1b3\"" or "0").
type Assumption struct {
	TypeName string
	ProvPat  string
	Value    string
	NotEqual bool // the discriminator differs from Value (used for i != 0)
}

func (a Assumption) String() string {
	n := a.TypeName
	if n == "" {
		n = a.ProvPat
	}
	if a.NotEqual {
		return n + "!=" + a.Value
	}
	return n + "=" + a.Value
}

// ---------------------------------------------------------------- engine

type Ctx struct {
	P         *load.Program
	CG        *callgraph.Graph
	Assume    []Assumption
	memo      map[string]bool
	foldDepth int
	phiLvl    int // 0 = top level; k+1 = evaluating at level k
	reachLvl  map[int]map[*ssa.Function]map[*ssa.BasicBlock]bool
	// substKey identifies the active parameter substitution (callee examined
	// on behalf of one call site), part of the memo key
	substKey string
	active   map[string]bool
	// Steps counts CFG edges examined (reported as evidence).
	Steps int
	// OnlyReturn, if set, restricts the exits considered to this instruction.
	OnlyReturn *ssa.Return
}

func New(p *load.Program, cg *callgraph.Graph, assume ...Assumption) *Ctx {
	return &Ctx{P: p, CG: cg, Assume: assume, memo: map[string]bool{}, active: map[string]bool{}}
}

func (c *Ctx) assumeKey() string {
	var s []string
	for _, a := range c.Assume {
		s = append(s, a.String())
	}
	sort.Strings(s)
	return strings.Join(s, ",")
}

func typeNameOf(t types.Type) string {
	n, ok := t.(*types.Named)
	if !ok {
		return ""
	}
	obj := n.Obj()
	if obj.Pkg() == nil {
		return obj.Name()
	}
	return load.ShortPkg(obj.Pkg().Path()) + "." + obj.Name()
}

// fold evaluates cond under the assumptions: returns (value, known).
func (c *Ctx) fold(cond ssa.Value) (bool, bool) {
	neg := false
	for {
		u, ok := cond.(*ssa.UnOp)
		if !ok || u.Op != token.NOT {
			break
		}
		cond = u.X
		neg = !neg
	}
	if ph, isPhi := cond.(*ssa.Phi); isPhi && len(c.Assume) > 0 && c.phiLevel() > 0 && c.foldDepth < 4 {
		// a condition computed earlier (ok := a || b; if ok ...): all feasible
		// incoming edges carry the same truth value
		c.foldDepth++
		known, val, n := true, false, 0
		for i, ed := range ph.Edges {
			if !c.edgeFeasible(ph.Block().Preds[i], ph.Block()) {
				continue
			}
			var v, ok bool
			if k, isC := ed.(*ssa.Const); isC && k.Value != nil && k.Value.Kind() == constant.Bool {
				v, ok = constant.BoolVal(k.Value), true
			} else {
				v, ok = c.fold(ed)
			}
			if !ok || (n > 0 && v != val) {
				known = false
				break
			}
			val = v
			n++
		}
		c.foldDepth--
		if known && n > 0 {
			if neg {
				val = !val
			}
			return val, true
		}
	}
	if call, isCall := cond.(*ssa.Call); isCall && len(c.Assume) > 0 {
		if v, known := c.callBool(call, 0); known {
			if neg {
				v = !v
			}
			return v, true
		}
	}
	if bb, isBin := cond.(*ssa.BinOp); isBin && isCompare(bb.Op) && len(c.Assume) > 0 {
		// both sides evaluable to integers under the assumptions
		_, xc := bb.X.(*ssa.Const)
		_, yc := bb.Y.(*ssa.Const)
		if !(xc && yc) {
			if l, ok1 := c.evalInt(bb.X, 0); ok1 {
				if r, ok2 := c.evalInt(bb.Y, 0); ok2 {
					// only when at least one side actually depends on an assumption
					if c.dependsOnAssumption(bb.X, 0) || c.dependsOnAssumption(bb.Y, 0) {
						res := constant.Compare(l, bb.Op, r)
						if neg {
							res = !res
						}
						return res, true
					}
				}
			}
		}
	}
	b, ok := cond.(*ssa.BinOp)
	if !ok {
		// a bool-typed discriminator used directly as the condition
		for _, a := range c.Assume {
			if a.ProvPat != "" && (a.Value == "true" || a.Value == "false") && prov.Match(a.ProvPat, prov.Of(cond)) {
				v := a.Value == "true"
				if a.NotEqual {
					v = !v
				}
				if neg {
					v = !v
				}
				return v, true
			}
		}
		return false, false
	}
	if !isCompare(b.Op) {
		return false, false
	}
	if b.Op != token.EQL && b.Op != token.NEQ {
		return c.foldOrder(b, neg)
	}
	var cst *ssa.Const
	var other ssa.Value
	if k, ok := b.Y.(*ssa.Const); ok {
		cst, other = k, b.X
	} else if k, ok := b.X.(*ssa.Const); ok {
		cst, other = k, b.Y
	} else {
		return false, false
	}
	if _, isC := other.(*ssa.Const); isC {
		return false, false
	}
	if cst.Value == nil {
		// comparison with nil: decided by an assumption "x = nil" / "x != nil"
		for _, a := range c.Assume {
			if a.Value != "nil" || a.ProvPat == "" || !prov.Match(a.ProvPat, prov.Of(other)) {
				continue
			}
			res := !a.NotEqual // x == nil ?
			if b.Op == token.NEQ {
				res = !res
			}
			if neg {
				res = !res
			}
			return res, true
		}
		return false, false
	}
	cv := strings.TrimPrefix(prov.Of(cst), "const:")
	for _, a := range c.Assume {
		match := false
		if a.TypeName != "" && typeNameOf(other.Type()) == a.TypeName {
			match = true
		}
		if a.ProvPat != "" && prov.Match(a.ProvPat, prov.Of(other)) {
			match = true
		}
		if !match {
			continue
		}
		var eq bool
		if a.NotEqual {
			if cv != a.Value {
				continue // x != V says nothing about x == W
			}
			eq = false
		} else {
			eq = cv == a.Value
		}
		res := eq
		if b.Op == token.NEQ {
			res = !eq
		}
		if neg {
			res = !res
		}
		return res, true
	}
	return false, false
}

// Established reports whether gate g holds on every path of fn from entry to
// an exit with outcome o.  The witness is a path avoiding g (nil if none).
func (c *Ctx) Established(fn *ssa.Function, o Outcome, g Gate) (bool, []string) {
	key := load.FuncName(fn) + "|" + o.String() + "|" + g.Key + "|" + c.assumeKey() + "|" + c.substKey
	if v, ok := c.memo[key]; ok {
		return v, nil
	}
	if c.active[key] {
		return true, nil // recursion: greatest fixpoint
	}
	c.active[key] = true
	ok, w := c.search(fn, fn.Blocks[0], -1, o, g, nil)
	delete(c.active, key)
	c.memo[key] = ok
	return ok, w
}

// EstablishedFrom is Established but starting at block `from` (entered through
// predecessor index pred, -1 if irrelevant) and additionally treating entry
// into any block of `stop` as reaching a success exit (used for "every
// iteration passes the gate": stop = loop header).
func (c *Ctx) EstablishedFrom(fn *ssa.Function, from *ssa.BasicBlock, o Outcome, g Gate, stop map[*ssa.BasicBlock]bool) (bool, []string) {
	return c.search(fn, from, -1, o, g, stop)
}

type state struct {
	b    *ssa.BasicBlock
	pred int
	// failed: the calls whose error result is known to be non-nil on this
	// path (the failing side of "err != nil" was taken), as a canonical key
	failed string
}

func (c *Ctx) search(fn *ssa.Function, start *ssa.BasicBlock, startPred int, o Outcome, g Gate, stop map[*ssa.BasicBlock]bool) (bool, []string) {
	type node struct {
		st   state
		prev *node
		via  string
	}
	seen := map[state]bool{}
	root := &node{st: state{b: start, pred: startPred}}
	queue := []*node{root}
	seen[root.st] = true
	witness := func(n *node, tail string) []string {
		var rev []string
		rev = append(rev, tail)
		for x := n; x != nil; x = x.prev {
			s := fmt.Sprintf("block %d (%s)", x.st.b.Index, c.blockPos(x.st.b))
			if x.via != "" {
				s += " via " + x.via
			}
			rev = append(rev, s)
		}
		for i, j := 0, len(rev)-1; i < j; i, j = i+1, j-1 {
			rev[i], rev[j] = rev[j], rev[i]
		}
		return rev
	}
	for len(queue) > 0 {
		n := queue[0]
		queue = queue[1:]
		b := n.st.b
		if c.blockEstablishes(b, g) {
			continue
		}
		last := b.Instrs[len(b.Instrs)-1]
		switch t := last.(type) {
		case *ssa.Return:
			if c.OnlyReturn != nil && t != c.OnlyReturn && t.Parent() == c.OnlyReturn.Parent() {
				continue
			}
			if o.Kind == ErrNil && o.Idx < len(t.Results) && n.st.failed != "" {
				if call, _ := callOf(resolvePhi(t.Results[o.Idx], b, n.st.pred)); call != nil && strings.Contains(n.st.failed, callKey(call)) {
					continue // on this path the returned error is known to be non-nil
				}
			}
			if c.exitMaySucceedWithout(fn, t, n.st.pred, o, g) {
				return false, witness(n, fmt.Sprintf("return at %s with %s, gate %q not established", c.P.InstrPos(t), o, g.Key))
			}
		case *ssa.Panic:
			// not a normal exit
		case *ssa.Jump:
			c.Steps++
			s := b.Succs[0]
			if stop != nil && stop[s] {
				return false, witness(n, fmt.Sprintf("reaches block %d (%s) without gate %q", s.Index, c.blockPos(s), g.Key))
			}
			ns := state{s, predIndex(s, b), n.st.failed}
			if !seen[ns] {
				seen[ns] = true
				queue = append(queue, &node{st: ns, prev: n})
			}
		case *ssa.If:
			folded, known := c.fold(t.Cond)
			for i, s := range b.Succs {
				branch := i == 0
				if known && folded != branch {
					continue // infeasible under the assumptions
				}
				c.Steps++
				facts := EdgeFacts(t.Cond, branch)
				if c.factsEstablish(facts, g) {
					continue
				}
				if stop != nil && stop[s] {
					return false, witness(n, fmt.Sprintf("reaches block %d (%s) without gate %q", s.Index, c.blockPos(s), g.Key))
				}
				failed := n.st.failed
				for _, f := range facts {
					if f.Kind == FErrSet && f.Call != nil && !strings.Contains(failed, callKey(f.Call)) {
						failed += callKey(f.Call)
					}
				}
				ns := state{s, predIndex(s, b), failed}
				if !seen[ns] {
					seen[ns] = true
					via := ""
					if len(facts) > 0 {
						via = facts[len(facts)-1].String()
					}
					queue = append(queue, &node{st: ns, prev: n, via: via})
				}
			}
		}
	}
	return true, nil
}

func predIndex(s, pred *ssa.BasicBlock) int {
	for i, p := range s.Preds {
		if p == pred {
			return i
		}
	}
	return -1
}

func (c *Ctx) blockPos(b *ssa.BasicBlock) string {
	for _, in := range b.Instrs {
		if in.Pos().IsValid() {
			return c.P.Pos(in.Pos())
		}
	}
	return b.Comment
}

// blockEstablishes: the block contains an instruction matching the gate, or a
// call to module functions all of which establish the gate on every return.
func (c *Ctx) blockEstablishes(b *ssa.BasicBlock, g Gate) bool {
	for _, in := range b.Instrs {
		if g.Instr != nil && g.Instr(in) {
			return true
		}
		if call, ok := in.(*ssa.Call); ok {
			callees := c.P.ModuleCallees(c.CG, call)
			if len(callees) == 0 {
				continue
			}
			if !c.allModule(call) {
				continue
			}
			all := true
			for _, cal := range callees {
				if !c.calleeEstablishes(call, cal, Outcome{Kind: AnyReturn}, g) {
					all = false
					break
				}
			}
			if all {
				return true
			}
		}
	}
	return false
}

// calleeEstablishes: callee establishes g on every path to outcome o, first
// with the gate's operands read in the callee's own terms, then with the
// callee's parameters standing for the arguments of this call site (a check
// moved into a helper keeps its operands).
func (c *Ctx) calleeEstablishes(call *ssa.Call, cal *ssa.Function, o Outcome, g Gate) bool {
	if ok, _ := c.Established(cal, o, g); ok {
		return true
	}
	// only for functions the rule tables do not know (a check moved into a new
	// helper): the tables describe every known function in its own terms
	if call.Call.IsInvoke() || len(call.Call.Args) != len(cal.Params) || prov.SubstDepth() > 3 || prov.KnownFunction(cal) {
		return false
	}
	saved := c.substKey
	sig := prov.PushSubst(cal, &call.Call)
	c.substKey = saved + ">" + load.FuncName(cal) + "(" + sig + ")"
	ok, _ := c.Established(cal, o, g)
	prov.PopSubst()
	c.substKey = saved
	return ok
}

// allModule: every possible callee of the call is a module function with a body.
func (c *Ctx) allModule(call *ssa.Call) bool {
	if sc := call.Call.StaticCallee(); sc != nil {
		return sc.Blocks != nil && c.P.InModule(sc)
	}
	cs := load.Callees(c.CG, call)
	if len(cs) == 0 {
		return false
	}
	for _, f := range cs {
		if f.Blocks == nil || !c.P.InModule(f) {
			return false
		}
	}
	return true
}

func (c *Ctx) factsEstablish(facts []Fact, g Gate) bool {
	for _, f := range facts {
		if g.Edge != nil && g.Edge(f) {
			return true
		}
		// interprocedural: the outcome of a module call was tested
		var call *ssa.Call
		var o Outcome
		switch f.Kind {
		case FErrNil:
			call = f.Call
			o = Outcome{Kind: ErrNil, Idx: errIndex(call)}
		case FBool:
			if f.Call == nil {
				continue
			}
			call = f.Call
			_, idx := callOf(f.V)
			o = Outcome{Kind: BoolTrue, Idx: idx}
			if !f.Val {
				o.Kind = BoolFalse
			}
		case FCmp:
			// x != nil where x is a pointer-like result of a module call
			if f.Op == token.NEQ && (isNilConst(f.Y) || isNilConst(f.X)) {
				other := f.X
				if isNilConst(f.X) {
					other = f.Y
				}
				if cl, idx := callOf(other); cl != nil && !isErrorType(other.Type()) {
					call = cl
					o = Outcome{Kind: NonNil, Idx: idx}
				}
			}
		}
		if call == nil || !c.allModule(call) {
			continue
		}
		all := true
		for _, cal := range c.P.ModuleCallees(c.CG, call) {
			if !c.calleeEstablishes(call, cal, o, g) {
				all = false
				break
			}
		}
		if all {
			return true
		}
	}
	return false
}

func errIndex(call *ssa.Call) int {
	res := call.Call.Signature().Results()
	for i := res.Len() - 1; i >= 0; i-- {
		if isErrorType(res.At(i).Type()) {
			return i
		}
	}
	return res.Len() - 1
}

// resolvePhi: the value of v when its block was entered through pred.
func resolvePhi(v ssa.Value, b *ssa.BasicBlock, pred int) ssa.Value {
	if p, ok := v.(*ssa.Phi); ok && p.Block() == b && pred >= 0 && pred < len(p.Edges) {
		return p.Edges[pred]
	}
	return v
}

// asserted looks for a dominating branch that fixes v to nil/non-nil or a bool.
// Returns +1 (nil / false), -1 (non-nil / true), 0 unknown.
func assertedNil(v ssa.Value, at *ssa.BasicBlock) int {
	for d := at; d != nil; d = d.Idom() {
		p := d.Idom()
		if p == nil {
			break
		}
		ifi, ok := p.Instrs[len(p.Instrs)-1].(*ssa.If)
		if !ok {
			continue
		}
		for i, s := range p.Succs {
			if s != d || len(s.Preds) != 1 {
				continue
			}
			for _, f := range EdgeFacts(ifi.Cond, i == 0) {
				if f.Kind == FCmp && (f.Op == token.EQL || f.Op == token.NEQ) {
					var other ssa.Value
					if isNilConst(f.Y) {
						other = f.X
					} else if isNilConst(f.X) {
						other = f.Y
					}
					if other == v {
						if f.Op == token.EQL {
							return 1
						}
						return -1
					}
				}
			}
		}
	}
	return 0
}

func assertedBool(v ssa.Value, at *ssa.BasicBlock) (val bool, known bool) {
	for d := at; d != nil; d = d.Idom() {
		p := d.Idom()
		if p == nil {
			break
		}
		ifi, ok := p.Instrs[len(p.Instrs)-1].(*ssa.If)
		if !ok {
			continue
		}
		for i, s := range p.Succs {
			if s != d || len(s.Preds) != 1 {
				continue
			}
			for _, f := range EdgeFacts(ifi.Cond, i == 0) {
				if f.Kind == FBool && f.V == v {
					return f.Val, true
				}
			}
		}
	}
	return false, false
}

// exitMaySucceedWithout: can this Return have outcome o without g being
// established by the returned expression itself?
func (c *Ctx) exitMaySucceedWithout(fn *ssa.Function, r *ssa.Return, pred int, o Outcome, g Gate) bool {
	if o.Kind == AnyReturn {
		return true
	}
	if o.Kind == NoExit {
		return false
	}
	if o.Idx >= len(r.Results) {
		return true
	}
	v := resolvePhi(r.Results[o.Idx], r.Block(), pred)
	switch o.Kind {
	case ErrNil:
		return c.errMayBeNilWithout(v, r.Block(), g, 0)
	case NonNil:
		if isNilConst(v) {
			return false
		}
		return true
	case BoolTrue, BoolFalse:
		want := o.Kind == BoolTrue
		return c.boolMayBeWithout(v, want, r.Block(), g, 0)
	}
	return true
}

func (c *Ctx) errMayBeNilWithout(v ssa.Value, at *ssa.BasicBlock, g Gate, depth int) bool {
	if depth > 4 {
		return true
	}
	switch x := v.(type) {
	case *ssa.Const:
		return x.Value == nil // nil constant: success
	case *ssa.MakeInterface:
		return false // freshly built error value
	case *ssa.UnOp:
		if x.Op == token.MUL {
			if _, ok := x.X.(*ssa.Global); ok {
				return false // sentinel error variable (never nil; checked by E5)
			}
		}
	case *ssa.Phi:
		for _, e := range x.Edges {
			if c.errMayBeNilWithout(e, at, g, depth+1) {
				return true
			}
		}
		return false
	case *ssa.Parameter:
		// an error handed to a helper examined on behalf of one call site is the
		// value that site passed: a sentinel variable or a fresh error is not nil
		if a, ok := prov.SubstValue(x); ok {
			switch y := a.(type) {
			case *ssa.Const:
				return y.Value == nil
			case *ssa.MakeInterface:
				return false
			case *ssa.UnOp:
				if _, isGlobal := y.X.(*ssa.Global); isGlobal && y.Op == token.MUL {
					return false
				}
			}
		}
	case *ssa.Call, *ssa.Extract:
		call, _ := callOf(v)
		if call == nil {
			break
		}
		switch assertedNil(v, at) {
		case -1:
			return false // on this path the error is known to be non-nil
		}
		name := prov.CalleeName(&call.Call)
		if name == "errors.New" || name == "fmt.Errorf" {
			return false
		}
		// success iff the call succeeded
		if c.factsEstablish([]Fact{{Kind: FErrNil, Call: call}}, g) {
			return false
		}
		return true
	}
	if assertedNil(v, at) == -1 {
		return false
	}
	return true
}

func (c *Ctx) boolMayBeWithout(v ssa.Value, want bool, at *ssa.BasicBlock, g Gate, depth int) bool {
	if depth > 6 {
		return true
	}
	if k, ok := v.(*ssa.Const); ok && k.Value != nil && k.Value.Kind() == constant.Bool {
		return constant.BoolVal(k.Value) == want
	}
	if val, known := assertedBool(v, at); known {
		return val == want
	}
	switch x := v.(type) {
	case *ssa.Phi:
		// a && b / a || b in value context: each incoming value; an incoming
		// constant is decided, an incoming expression carries its own facts.
		for i, e := range x.Edges {
			// the edge into the phi block may itself carry facts (short-circuit)
			pb := x.Block().Preds[i]
			if c.edgeIntoEstablishes(pb, x.Block(), g) {
				continue
			}
			if c.boolMayBeWithout(e, want, pb, g, depth+1) {
				return true
			}
		}
		return false
	case *ssa.UnOp:
		if x.Op == token.NOT {
			return c.boolMayBeWithout(x.X, !want, at, g, depth+1)
		}
	}
	facts := EdgeFacts(v, want)
	if c.factsEstablish(facts, g) {
		return false
	}
	// The value may have been computed after the gate was already passed on
	// every path to its defining block (dominating establishment).
	return true
}

// edgeIntoEstablishes: is the edge from -> to guarded by a fact establishing g?
func (c *Ctx) edgeIntoEstablishes(from, to *ssa.BasicBlock, g Gate) bool {
	ifi, ok := from.Instrs[len(from.Instrs)-1].(*ssa.If)
	if !ok {
		return false
	}
	for i, s := range from.Succs {
		if s == to {
			if c.factsEstablish(EdgeFacts(ifi.Cond, i == 0), g) {
				return true
			}
		}
	}
	return false
}

// Never is a gate nothing establishes; used to test reachability of exits.
var Never = Gate{Key: "<never>", Desc: "never"}

// SuccessReachable: some exit of fn with outcome o is reachable under the
// assumptions (guards against vacuous establishment).
func (c *Ctx) SuccessReachable(fn *ssa.Function, o Outcome) bool {
	ok, _ := c.search(fn, fn.Blocks[0], -1, o, Never, nil)
	return !ok
}

// SuccessReturns lists the Return instructions of fn that may have outcome o.
func (c *Ctx) SuccessReturns(fn *ssa.Function, o Outcome) []*ssa.Return {
	var out []*ssa.Return
	for _, b := range fn.Blocks {
		r, ok := b.Instrs[len(b.Instrs)-1].(*ssa.Return)
		if !ok {
			continue
		}
		if len(b.Preds) == 0 {
			if c.exitMaySucceedWithout(fn, r, -1, o, Never) {
				out = append(out, r)
			}
			continue
		}
		for i := range b.Preds {
			if c.exitMaySucceedWithout(fn, r, i, o, Never) {
				out = append(out, r)
				break
			}
		}
	}
	return out
}

// ---------------------------------------------------------------- rejections

// Rejection is a branch edge after which outcome o is no longer reachable
// (within the current loop iteration: back edges are not followed), although
// it was reachable before the branch.
type Rejection struct {
	Block    *ssa.BasicBlock
	Succ     int
	Facts    []Fact // facts on the rejecting edge
	Accepted []Fact // facts on the sibling (accepting) edge
}

// Rejections lists the rejecting branch edges of fn for outcome o.
func (c *Ctx) Rejections(fn *ssa.Function, o Outcome) []Rejection {
	can := map[*ssa.BasicBlock]bool{}
	// success exits
	for _, r := range c.SuccessReturns(fn, o) {
		can[r.Block()] = true
	}
	// natural loop bodies per header
	loop := map[*ssa.BasicBlock]map[*ssa.BasicBlock]bool{}
	for _, u := range fn.Blocks {
		for _, h := range u.Succs {
			if !h.Dominates(u) {
				continue
			}
			if loop[h] == nil {
				loop[h] = map[*ssa.BasicBlock]bool{h: true}
			}
			stack := []*ssa.BasicBlock{u}
			for len(stack) > 0 {
				x := stack[len(stack)-1]
				stack = stack[:len(stack)-1]
				if loop[h][x] {
					continue
				}
				loop[h][x] = true
				stack = append(stack, x.Preds...)
			}
		}
	}
	// A back edge to header h is neutral (the iteration did not reject) iff
	// success is reachable through an exit taken at the header itself, i.e.
	// the loop is a for-all loop whose success lies after it.  In a search
	// loop (success inside the body, exit = failure) a back edge rejects the
	// current candidate.
	exitCan := func(h *ssa.BasicBlock) bool {
		for _, t := range h.Succs {
			if !loop[h][t] && can[t] {
				return true
			}
		}
		return false
	}
	changed := true
	for changed {
		changed = false
		for _, b := range fn.Blocks {
			if can[b] {
				continue
			}
			for _, s := range b.Succs {
				if s.Dominates(b) {
					if exitCan(s) {
						can[b] = true
						changed = true
						break
					}
					continue
				}
				if can[s] {
					can[b] = true
					changed = true
					break
				}
			}
		}
	}
	var out []Rejection
	for _, b := range fn.Blocks {
		ifi, ok := b.Instrs[len(b.Instrs)-1].(*ssa.If)
		if !ok || !can[b] {
			continue
		}
		for i, s := range b.Succs {
			rejecting := !can[s] || (s.Dominates(b) && !exitCan(s))
			if !rejecting {
				continue
			}
			if _, isPanic := s.Instrs[len(s.Instrs)-1].(*ssa.Panic); isPanic && len(s.Succs) == 0 {
				continue // guards in front of a panic are E8's business, not a policy rejection
			}
			// the return in block b may be phi-sensitive: if s is a return block
			// that can succeed only through other predecessors, it is rejecting here
			out = append(out, Rejection{Block: b, Succ: i, Facts: EdgeFacts(ifi.Cond, i == 0), Accepted: EdgeFacts(ifi.Cond, i != 0)})
		}
	}
	return out
}

// Listed reports whether the accepting sibling of a rejection establishes one
// of the listed gates (directly or through a callee summary).
func (c *Ctx) Listed(r Rejection, gates []Gate) (string, bool) {
	for _, g := range gates {
		if c.factsEstablish(r.Accepted, g) {
			return g.Key, true
		}
	}
	return "", false
}

// foldOrder evaluates x OP const (or const OP x) for an ordering operator when
// an assumption fixes x to a numeric value.
func (c *Ctx) foldOrder(b *ssa.BinOp, neg bool) (bool, bool) {
	var cst *ssa.Const
	var other ssa.Value
	swapped := false
	if k, ok := b.Y.(*ssa.Const); ok {
		cst, other = k, b.X
	} else if k, ok := b.X.(*ssa.Const); ok {
		cst, other, swapped = k, b.Y, true
	} else {
		return false, false
	}
	if cst.Value == nil || cst.Value.Kind() != constant.Int {
		return false, false
	}
	if _, isC := other.(*ssa.Const); isC {
		return false, false
	}
	for _, a := range c.Assume {
		match := (a.TypeName != "" && typeNameOf(other.Type()) == a.TypeName) || (a.ProvPat != "" && prov.Match(a.ProvPat, prov.Of(other)))
		if !match {
			continue
		}
		if a.NotEqual {
			// x != 0 for a non-negative x (a length, an index of a range or
			// index loop, an unsigned value) means x >= 1
			if a.Value != "0" || !(nonNegative(other) || prov.Of(other) == "rangeidx") {
				continue
			}
			k, exact := constant.Int64Val(cst.Value)
			if !exact {
				continue
			}
			op := b.Op
			if swapped {
				op = swap(op)
			}
			var res, known bool
			switch op {
			case token.GTR: // x > k
				res, known = true, k <= 0
			case token.GEQ: // x >= k
				res, known = true, k <= 1
			case token.LSS: // x < k
				res, known = false, k <= 1
			case token.LEQ: // x <= k
				res, known = false, k <= 0
			}
			if !known {
				continue
			}
			if neg {
				res = !res
			}
			return res, true
		}
		av := constant.MakeFromLiteral(a.Value, token.INT, 0)
		if av.Kind() != constant.Int {
			return false, false
		}
		op := b.Op
		l, r := av, cst.Value
		if swapped {
			l, r = cst.Value, av
		}
		res := constant.Compare(l, op, r)
		if neg {
			res = !res
		}
		return res, true
	}
	return false, false
}

// PhiUnder: the set of incoming values (as provenance terms) that the phi named
// name can receive on edges reachable from the entry under the assumptions.
func (c *Ctx) PhiUnder(fn *ssa.Function, name string) []string {
	set := map[string]bool{}
	seen := map[*ssa.BasicBlock]bool{fn.Blocks[0]: true}
	stack := []*ssa.BasicBlock{fn.Blocks[0]}
	for len(stack) > 0 {
		b := stack[len(stack)-1]
		stack = stack[:len(stack)-1]
		var succs []*ssa.BasicBlock
		if ifi, ok := b.Instrs[len(b.Instrs)-1].(*ssa.If); ok {
			if v, known := c.fold(ifi.Cond); known {
				if v {
					succs = b.Succs[:1]
				} else {
					succs = b.Succs[1:]
				}
			} else {
				succs = b.Succs
			}
		} else {
			succs = b.Succs
		}
		for _, s := range succs {
			pi := predIndex(s, b)
			for _, in := range s.Instrs {
				ph, ok := in.(*ssa.Phi)
				if !ok {
					break
				}
				if prov.CanonLocal(fn, ph.Comment) == name && pi >= 0 {
					set[prov.Of(ph.Edges[pi])] = true
				}
			}
			if !seen[s] {
				seen[s] = true
				stack = append(stack, s)
			}
		}
	}
	var out []string
	for k := range set {
		out = append(out, k)
	}
	sort.Strings(out)
	return out
}

// ExitsUnder describes the exits reachable under the assumptions: for each
// reachable Return the provenance of result idx ("panic" for Panic exits).
func (c *Ctx) ExitsUnder(fn *ssa.Function, idx int) []string {
	set := map[string]bool{}
	seen := map[*ssa.BasicBlock]bool{fn.Blocks[0]: true}
	stack := []*ssa.BasicBlock{fn.Blocks[0]}
	for len(stack) > 0 {
		b := stack[len(stack)-1]
		stack = stack[:len(stack)-1]
		switch t := b.Instrs[len(b.Instrs)-1].(type) {
		case *ssa.Return:
			if idx < len(t.Results) {
				if v, ok := c.evalInt(t.Results[idx], 0); ok {
					set["const:"+v.ExactString()] = true
				} else if bv, known := c.fold(t.Results[idx]); known && isBoolType(t.Results[idx].Type()) {
					set[fmt.Sprintf("const:%v", bv)] = true
				} else {
					set[prov.Of(t.Results[idx])] = true
				}
			}
		case *ssa.Panic:
			set["panic"] = true
		}
		var succs []*ssa.BasicBlock
		if ifi, ok := b.Instrs[len(b.Instrs)-1].(*ssa.If); ok {
			if v, known := c.fold(ifi.Cond); known {
				if v {
					succs = b.Succs[:1]
				} else {
					succs = b.Succs[1:]
				}
			} else {
				succs = b.Succs
			}
		} else {
			succs = b.Succs
		}
		for _, s := range succs {
			if !seen[s] {
				seen[s] = true
				stack = append(stack, s)
			}
		}
	}
	var out []string
	for k := range set {
		out = append(out, k)
	}
	sort.Strings(out)
	return out
}

// WithEdge returns a copy of g whose edge matcher is replaced by f.
func (g Gate) WithEdge(f func(Fact) bool) Gate {
	g.Edge = f
	return g
}

// callBool: the bool result of a call to a module function is the same
// constant on every return reachable under the assumptions (e.g.
// Version.SupportsVariants() for a fixed version).
func (c *Ctx) callBool(call *ssa.Call, depth int) (bool, bool) {
	if depth > 3 {
		return false, false
	}
	sc := call.Call.StaticCallee()
	if sc == nil || sc.Blocks == nil || !c.P.InModule(sc) || sc.Signature.Results().Len() != 1 {
		return false, false
	}
	if bt, ok := sc.Signature.Results().At(0).Type().Underlying().(*types.Basic); !ok || bt.Kind() != types.Bool {
		return false, false
	}
	var val, have bool
	seen := map[*ssa.BasicBlock]bool{sc.Blocks[0]: true}
	stack := []*ssa.BasicBlock{sc.Blocks[0]}
	for len(stack) > 0 {
		b := stack[len(stack)-1]
		stack = stack[:len(stack)-1]
		succs := b.Succs
		switch t := b.Instrs[len(b.Instrs)-1].(type) {
		case *ssa.Return:
			var v, known bool
			if k, ok := t.Results[0].(*ssa.Const); ok && k.Value != nil && k.Value.Kind() == constant.Bool {
				v, known = constant.BoolVal(k.Value), true
			} else {
				v, known = c.fold(t.Results[0])
			}
			if !known {
				return false, false
			}
			if have && v != val {
				return false, false
			}
			val, have = v, true
		case *ssa.If:
			if v, known := c.fold(t.Cond); known {
				if v {
					succs = b.Succs[:1]
				} else {
					succs = b.Succs[1:]
				}
			}
		}
		for _, s := range succs {
			if !seen[s] {
				seen[s] = true
				stack = append(stack, s)
			}
		}
	}
	return val, have
}

// ReachableBlocks: blocks reachable from the entry under the assumptions.
func (c *Ctx) ReachableBlocks(fn *ssa.Function) []*ssa.BasicBlock {
	seen := map[*ssa.BasicBlock]bool{fn.Blocks[0]: true}
	stack := []*ssa.BasicBlock{fn.Blocks[0]}
	var out []*ssa.BasicBlock
	for len(stack) > 0 {
		b := stack[len(stack)-1]
		stack = stack[:len(stack)-1]
		out = append(out, b)
		succs := b.Succs
		if ifi, ok := b.Instrs[len(b.Instrs)-1].(*ssa.If); ok {
			if v, known := c.fold(ifi.Cond); known {
				if v {
					succs = b.Succs[:1]
				} else {
					succs = b.Succs[1:]
				}
			}
		}
		for _, s := range succs {
			if !seen[s] {
				seen[s] = true
				stack = append(stack, s)
			}
		}
	}
	return out
}

// assumedInt: the numeric value an assumption gives to v, if any.
func (c *Ctx) assumedInt(v ssa.Value) (constant.Value, bool) {
	if _, isC := v.(*ssa.Const); isC {
		return nil, false
	}
	for _, a := range c.Assume {
		if a.NotEqual {
			continue
		}
		match := (a.TypeName != "" && typeNameOf(v.Type()) == a.TypeName) || (a.ProvPat != "" && prov.Match(a.ProvPat, prov.Of(v)))
		if !match {
			continue
		}
		av := constant.MakeFromLiteral(a.Value, token.INT, 0)
		if av.Kind() == constant.Int {
			return av, true
		}
	}
	return nil, false
}

func (c *Ctx) dependsOnAssumption(v ssa.Value, d int) bool {
	if d > 8 {
		return false
	}
	if _, ok := c.assumedInt(v); ok {
		return true
	}
	switch x := v.(type) {
	case *ssa.BinOp:
		return c.dependsOnAssumption(x.X, d+1) || c.dependsOnAssumption(x.Y, d+1)
	case *ssa.Convert:
		return c.dependsOnAssumption(x.X, d+1)
	case *ssa.ChangeType:
		return c.dependsOnAssumption(x.X, d+1)
	case *ssa.Call:
		if _, ok := c.evalInt(x, d+1); ok {
			return true
		}
	case *ssa.Phi:
		// the assumptions select among its incoming edges
		if c.phiLevel() == 0 {
			return false
		}
		for i, ed := range x.Edges {
			if !c.edgeFeasible(x.Block().Preds[i], x.Block()) || c.dependsOnAssumption(ed, d+1) {
				return true
			}
		}
	}
	return false
}

// evalInt evaluates an integer expression built from constants, assumed
// values and + - * << >> & | (constant propagation under the assumptions).
func (c *Ctx) evalInt(v ssa.Value, d int) (constant.Value, bool) {
	if d > 8 {
		return nil, false
	}
	if av, ok := c.assumedInt(v); ok {
		return av, true
	}
	switch x := v.(type) {
	case *ssa.Const:
		if x.Value != nil && x.Value.Kind() == constant.Int {
			return x.Value, true
		}
	case *ssa.Convert:
		return c.evalInt(x.X, d+1)
	case *ssa.ChangeType:
		return c.evalInt(x.X, d+1)
	case *ssa.Call:
		// a call to a single-return module function: its result expression,
		// with the parameters standing for the arguments of this call
		if fn := x.Call.StaticCallee(); fn != nil && fn.Blocks != nil && c.P.InModule(fn) && len(x.Call.Args) == len(fn.Params) && prov.SubstDepth() < 3 {
			var ret *ssa.Return
			n := 0
			for _, b := range fn.Blocks {
				if r, ok := b.Instrs[len(b.Instrs)-1].(*ssa.Return); ok {
					ret = r
					n++
				}
			}
			if n == 1 && len(ret.Results) == 1 {
				prov.PushSubst(fn, &x.Call)
				val, ok := c.evalInt(ret.Results[0], d+1)
				prov.PopSubst()
				return val, ok
			}
		}
	case *ssa.Phi:
		// the value of a phi all of whose feasible incoming edges carry the
		// same constant (feasibility is decided without this rule, which can
		// only keep more edges: sound)
		if c.phiLevel() == 0 {
			return nil, false
		}
		var got constant.Value
		n := 0
		for i, ed := range x.Edges {
			if !c.edgeFeasible(x.Block().Preds[i], x.Block()) {
				continue
			}
			val, ok := c.evalInt(ed, d+1)
			if !ok {
				return nil, false
			}
			if n > 0 && !constant.Compare(got, token.EQL, val) {
				return nil, false
			}
			got = val
			n++
		}
		if n > 0 {
			return got, true
		}
	case *ssa.UnOp:
		// an element of a package-level constant table (array literal that only
		// the package initialiser writes)
		if x.Op == token.MUL {
			if ia, ok := x.X.(*ssa.IndexAddr); ok {
				if g, ok := ia.X.(*ssa.Global); ok {
					if idx, ok := c.evalInt(ia.Index, d+1); ok {
						if tab, ok := c.constTable(g); ok {
							if i, exact := constant.Int64Val(idx); exact && i >= 0 && i < tab.n {
								if v, set := tab.vals[constant.MakeInt64(i).ExactString()]; set {
									return v, true
								}
								return constant.MakeInt64(0), true
							}
						}
					}
				}
			}
		}
	case *ssa.Lookup:
		// ... or of a package-level map literal with integer values (the
		// comma-ok form and missing keys are not evaluated)
		if ld, ok := x.X.(*ssa.UnOp); ok && ld.Op == token.MUL && !x.CommaOk {
			if g, ok := ld.X.(*ssa.Global); ok {
				if tab, ok := c.constTable(g); ok {
					key := ""
					if k, ok := x.Index.(*ssa.Const); ok && k.Value != nil {
						key = k.Value.ExactString()
					} else if kv, ok := c.evalInt(x.Index, d+1); ok {
						key = kv.ExactString()
					}
					if v, set := tab.vals[key]; set && key != "" {
						return v, true
					}
				}
			}
		}
	case *ssa.BinOp:
		l, ok1 := c.evalInt(x.X, d+1)
		r, ok2 := c.evalInt(x.Y, d+1)
		if !ok1 || !ok2 {
			return nil, false
		}
		switch x.Op {
		case token.ADD, token.SUB, token.MUL, token.AND, token.OR:
			return constant.BinaryOp(l, x.Op, r), true
		case token.QUO:
			if constant.Sign(r) != 0 {
				return constant.BinaryOp(l, token.QUO_ASSIGN, r), true // integer division, truncated
			}
		case token.REM:
			if constant.Sign(r) != 0 {
				return constant.BinaryOp(l, token.REM, r), true
			}
		case token.SHL, token.SHR:
			if s, ok := constant.Uint64Val(r); ok && s < 128 {
				return constant.Shift(l, x.Op, uint(s)), true
			}
		}
	}
	return nil, false
}

// constTab: a package-level table of integer constants, filled by the package
// initialiser and never written elsewhere.
type constTab struct {
	n    int64 // array length (-1 for maps)
	vals map[string]constant.Value
}

var (
	constTabMu   sync.Mutex
	constTabMemo = map[*ssa.Global]*constTab{}
)

func (c *Ctx) constTable(g *ssa.Global) (*constTab, bool) {
	constTabMu.Lock()
	defer constTabMu.Unlock()
	if t, ok := constTabMemo[g]; ok {
		return t, t != nil
	}
	t := c.buildConstTable(g)
	constTabMemo[g] = t
	return t, t != nil
}

func (c *Ctx) buildConstTable(g *ssa.Global) *constTab {
	if g.Pkg == nil {
		return nil
	}
	init := g.Pkg.Func("init")
	if init == nil {
		return nil
	}
	tab := &constTab{n: -1, vals: map[string]constant.Value{}}
	if at, ok := g.Type().(*types.Pointer).Elem().Underlying().(*types.Array); ok {
		tab.n = at.Len()
	}
	intConst := func(v ssa.Value) (constant.Value, bool) {
		for {
			switch x := v.(type) {
			case *ssa.Const:
				if x.Value != nil && x.Value.Kind() == constant.Int {
					return x.Value, true
				}
				return nil, false
			case *ssa.Convert:
				v = x.X
			case *ssa.ChangeType:
				v = x.X
			default:
				return nil, false
			}
		}
	}
	// every use of g anywhere in the module
	for _, fn := range c.P.Funcs {
		for _, b := range fn.Blocks {
			for _, in := range b.Instrs {
				uses := false
				for _, op := range in.Operands(nil) {
					if *op == ssa.Value(g) {
						uses = true
					}
				}
				if !uses {
					continue
				}
				switch x := in.(type) {
				case *ssa.IndexAddr:
					// element address: stores only in init (constants), loads anywhere
					for _, r := range *x.Referrers() {
						switch y := r.(type) {
						case *ssa.Store:
							k, okK := x.Index.(*ssa.Const)
							v, okV := intConst(y.Val)
							if fn != init || y.Addr != ssa.Value(x) || !okK || !okV || k.Value == nil {
								return nil
							}
							tab.vals[k.Value.ExactString()] = v
						case *ssa.UnOp:
							if y.Op != token.MUL {
								return nil
							}
						case *ssa.DebugRef:
						default:
							return nil
						}
					}
				case *ssa.UnOp:
					// load of the map / array value: read-only uses
					if x.Op != token.MUL {
						return nil
					}
					for _, r := range *x.Referrers() {
						switch y := r.(type) {
						case *ssa.Lookup, *ssa.Index, *ssa.Range, *ssa.DebugRef:
						case *ssa.Call:
							if bi, ok := y.Call.Value.(*ssa.Builtin); !ok || bi.Name() != "len" {
								return nil
							}
						default:
							return nil
						}
					}
				case *ssa.Store:
					// the map literal assigned in init: g = makemap; m[k] = v ...
					mm, ok := x.Val.(*ssa.MakeMap)
					if fn != init || x.Addr != ssa.Value(g) || !ok {
						return nil
					}
					for _, r := range *mm.Referrers() {
						switch y := r.(type) {
						case *ssa.MapUpdate:
							k, okK := y.Key.(*ssa.Const)
							v, okV := intConst(y.Value)
							if !okK || !okV || k.Value == nil {
								return nil
							}
							tab.vals[k.Value.ExactString()] = v
						case *ssa.Store, *ssa.DebugRef:
						default:
							return nil
						}
					}
				case *ssa.DebugRef:
				default:
					return nil
				}
			}
		}
	}
	// the initialiser itself is not in P.Funcs when it has no source body
	if len(tab.vals) == 0 {
		for _, b := range init.Blocks {
			for _, in := range b.Instrs {
				st, ok := in.(*ssa.Store)
				if !ok {
					continue
				}
				if ia, ok := st.Addr.(*ssa.IndexAddr); ok && ia.X == ssa.Value(g) {
					k, okK := ia.Index.(*ssa.Const)
					v, okV := intConst(st.Val)
					if !okK || !okV || k.Value == nil {
						return nil
					}
					tab.vals[k.Value.ExactString()] = v
				}
				if st.Addr == ssa.Value(g) {
					if mm, ok := st.Val.(*ssa.MakeMap); ok {
						for _, r := range *mm.Referrers() {
							if y, ok := r.(*ssa.MapUpdate); ok {
								k, okK := y.Key.(*ssa.Const)
								v, okV := intConst(y.Value)
								if !okK || !okV || k.Value == nil {
									return nil
								}
								tab.vals[k.Value.ExactString()] = v
							}
						}
					}
				}
			}
		}
	}
	if len(tab.vals) == 0 {
		return nil
	}
	return tab
}

// edgeFeasible: the CFG edge pred -> b can be taken under the assumptions
// (pred reachable from the entry and the edge not folded away).  Phi
// evaluation is stratified to stay well-founded: feasibility at level k is
// decided with phis evaluated at level k-1; level 0 evaluates no phi.  Each
// level can only prune more edges than the one below and every pruning is
// justified by the assumptions, so all levels are sound.
func (c *Ctx) edgeFeasible(pred, b *ssa.BasicBlock) bool {
	lvl := c.phiLevel() - 1
	if lvl < 0 {
		return true
	}
	saved := c.phiLvl
	c.phiLvl = lvl + 1 // stored shifted by one so that the zero value means "top"
	defer func() { c.phiLvl = saved }()
	fn := pred.Parent()
	if c.reachLvl == nil {
		c.reachLvl = map[int]map[*ssa.Function]map[*ssa.BasicBlock]bool{}
	}
	if c.reachLvl[lvl] == nil {
		c.reachLvl[lvl] = map[*ssa.Function]map[*ssa.BasicBlock]bool{}
	}
	reach, ok := c.reachLvl[lvl][fn]
	if !ok {
		reach = map[*ssa.BasicBlock]bool{}
		c.reachLvl[lvl][fn] = reach // recursion guard: an empty set prunes nothing below
		for _, x := range fn.Blocks {
			reach[x] = true
		}
		precise := map[*ssa.BasicBlock]bool{}
		for _, x := range c.ReachableBlocks(fn) {
			precise[x] = true
		}
		c.reachLvl[lvl][fn] = precise
		reach = precise
	}
	if !reach[pred] {
		return false
	}
	for _, s := range c.succsUnder(pred) {
		if s == b {
			return true
		}
	}
	return false
}

const topPhiLevel = 2

// phiLevel: the level at which phis are evaluated now (0 = not at all).
func (c *Ctx) phiLevel() int {
	if c.phiLvl == 0 {
		return topPhiLevel
	}
	return c.phiLvl - 1
}

// succsUnder: the successors of b that are feasible under the assumptions.
func (c *Ctx) succsUnder(b *ssa.BasicBlock) []*ssa.BasicBlock {
	if ifi, ok := b.Instrs[len(b.Instrs)-1].(*ssa.If); ok {
		if v, known := c.fold(ifi.Cond); known {
			if v {
				return b.Succs[:1]
			}
			return b.Succs[1:]
		}
	}
	return b.Succs
}

// Reaches: instruction to can execute after instruction from on some path
// feasible under the assumptions.
func (c *Ctx) Reaches(from, to ssa.Instruction) bool {
	if from.Block() == to.Block() {
		fi, ti := -1, -1
		for i, in := range from.Block().Instrs {
			if in == from {
				fi = i
			}
			if in == to {
				ti = i
			}
		}
		if fi < ti {
			return true
		}
	}
	seen := map[*ssa.BasicBlock]bool{}
	stack := append([]*ssa.BasicBlock{}, c.succsUnder(from.Block())...)
	for len(stack) > 0 {
		b := stack[len(stack)-1]
		stack = stack[:len(stack)-1]
		if seen[b] {
			continue
		}
		seen[b] = true
		if b == to.Block() {
			return true
		}
		stack = append(stack, c.succsUnder(b)...)
	}
	return false
}

// WithInstrIn returns a copy of g that additionally requires extra(in).
func (g Gate) WithInstrIn(extra func(ssa.Instruction) bool) Gate {
	old := g.Instr
	g.Instr = func(in ssa.Instruction) bool { return old != nil && old(in) && extra(in) }
	return g
}

// EvalValue evaluates integer value v of fn under the assumptions (constant
// propagation; a phi is resolved when its feasible incoming edges agree).
func (c *Ctx) EvalValue(fn *ssa.Function, v ssa.Value) (string, bool) {
	val, ok := c.evalInt(v, 0)
	if !ok {
		return "", false
	}
	return val.ExactString(), true
}

func callKey(c *ssa.Call) string { return fmt.Sprintf("<%p>", c) }

func isBoolType(t types.Type) bool {
	b, ok := t.Underlying().(*types.Basic)
	return ok && b.Info()&types.IsBoolean != 0
}
