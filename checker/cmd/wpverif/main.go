// wpverif decides the structural clauses of properties C01..C20 of
// WICG/webpackage by static analysis of /repo's current working tree.
package main

import (
	"encoding/json"
	"flag"
	"fmt"
	"os"
	"runtime/debug"
	"sort"
	"strings"

	"golang.org/x/tools/go/ssa"

	"wpverif/internal/core"
	"wpverif/internal/gate"
	"wpverif/internal/load"
	"wpverif/internal/props"
	"wpverif/internal/prov"
)

func main() {
	prop := flag.String("prop", "", "property id (C01..C20)")
	tier := flag.String("tier", "", "quick|thorough (default: $VERIF_TIER or quick)")
	repo := flag.String("repo", "/repo", "repository root")
	verif := flag.String("verif", "/verif", "verification directory (evidence, known_findings.txt)")
	dump := flag.String("dump", "", "debug: dump branch conditions and calls of the named function (glob)")
	replay := flag.String("replay", "", "re-evaluate the obligation recorded in this replay file")
	goarch := flag.String("goarch", "", "GOARCH for the load (default: host)")
	list := flag.Bool("list", false, "list registered properties")
	genNames := flag.String("gen-names", "", "write the frozen parameter/local name table of the current tree to this file")
	flag.Parse()

	if *list {
		for _, id := range props.IDs() {
			fmt.Println(id)
		}
		return
	}
	if *tier == "" {
		*tier = os.Getenv("VERIF_TIER")
	}
	if *tier != "thorough" {
		*tier = "quick"
	}

	if *genNames != "" {
		prov.Disabled = true
		p, err := load.Load(*repo, *goarch)
		if err != nil {
			fmt.Fprintln(os.Stderr, "INFRA:", err)
			os.Exit(2)
		}
		table := map[string]prov.FnNames{}
		for _, fn := range p.Funcs {
			if n, ok := prov.CurrentNames(fn); ok {
				if _, dup := table[prov.FuncString(fn)]; dup {
					fmt.Fprintln(os.Stderr, "duplicate function name:", prov.FuncString(fn))
				}
				table[prov.FuncString(fn)] = n
			}
		}
		// the named types of the module (a struct type that is not listed was
		// introduced after the rule tables were written)
		var tnames []string
		for _, pkg := range p.SSAPkgs {
			if !p.InModulePkg(pkg) {
				continue
			}
			for _, m := range pkg.Members {
				if t, ok := m.(*ssa.Type); ok {
					tnames = append(tnames, prov.TypeString(t.Type()))
				}
			}
		}
		sort.Strings(tnames)
		table["#types"] = prov.FnNames{Sig: tnames}
		b, _ := json.MarshalIndent(table, "", " ")
		if err := os.WriteFile(*genNames, append(b, '\n'), 0o644); err != nil {
			fmt.Fprintln(os.Stderr, "INFRA:", err)
			os.Exit(2)
		}
		fmt.Printf("%d functions\n", len(table))
		return
	}

	if *dump != "" {
		p, err := load.Load(*repo, *goarch)
		if err != nil {
			fmt.Fprintln(os.Stderr, "INFRA:", err)
			os.Exit(2)
		}
		if *dump == "carried" {
			for _, l := range props.CarriedSurvey(p) {
				fmt.Println(l)
			}
			return
		}
		dumpFuncs(p, *dump)
		return
	}

	if *replay != "" {
		os.Exit(props.Replay(*repo, *verif, *replay))
	}

	if *prop == "" {
		fmt.Fprintln(os.Stderr, "usage: wpverif -prop Cxx [-tier quick|thorough]")
		os.Exit(2)
	}
	os.Exit(run(*prop, *tier, *repo, *verif))
}

func run(prop, tier, repo, verif string) (code int) {
	defer func() {
		if r := recover(); r != nil {
			fmt.Fprintf(os.Stderr, "INFRA: internal panic: %v\n%s\n", r, debug.Stack())
			// an internal panic is a failed check, never a silent pass
			fmt.Printf("VIOLATION property=%s replay=%s\n", prop, "internal-panic")
			code = 1
		}
	}()
	rep := core.NewReport(prop, tier)
	return props.Run(rep, repo, verif)
}

func dumpFuncs(p *load.Program, pat string) {
	for _, fn := range p.Funcs {
		if !prov.Match(pat, load.FuncName(fn)) {
			continue
		}
		fmt.Printf("== %s (%s)\n", load.FuncName(fn), p.Pos(fn.Pos()))
		for _, b := range fn.Blocks {
			for _, in := range b.Instrs {
				switch x := in.(type) {
				case *ssa.If:
					fmt.Printf("  b%d %s IF\n", b.Index, p.InstrPos(in))
					for _, f := range gate.EdgeFacts(x.Cond, true) {
						fmt.Printf("      T: %s\n", f)
					}
					for _, f := range gate.EdgeFacts(x.Cond, false) {
						fmt.Printf("      F: %s\n", f)
					}
				case ssa.CallInstruction:
					var args []string
					cc := x.Common()
					if cc.IsInvoke() {
						args = append(args, prov.Of(cc.Value))
					}
					for _, a := range cc.Args {
						args = append(args, prov.Of(a))
					}
					fmt.Printf("  b%d %s CALL %s(%s)\n", b.Index, p.InstrPos(in), prov.CalleeName(cc), strings.Join(args, ", "))
				case *ssa.Return:
					var rs []string
					for _, r := range x.Results {
						rs = append(rs, prov.Of(r))
					}
					fmt.Printf("  b%d %s RETURN %s\n", b.Index, p.InstrPos(in), strings.Join(rs, " ; "))
				case *ssa.Store:
					fmt.Printf("  b%d %s STORE %s <- %s\n", b.Index, p.InstrPos(in), prov.Of(x.Addr), prov.Of(x.Val))
				case *ssa.Panic:
					fmt.Printf("  b%d %s PANIC\n", b.Index, p.InstrPos(in))
				}
			}
		}
	}
	var names []string
	for _, fn := range p.Funcs {
		names = append(names, load.FuncName(fn))
	}
	sort.Strings(names)
	_ = names
}
