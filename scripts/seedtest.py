#!/usr/bin/env python3
"""Re-checks every seeded change of /verif/seeded/*/ against the checks recorded
in its meta.json (detected_by): applies patch.diff to a scratch copy of /repo
(outside /repo and /verif, removed afterwards) and requires each listed check
to report a violation.  usage: seedtest.py [-j N] [-i ID]"""
import json, os, glob, shutil, subprocess, sys, tempfile, argparse, concurrent.futures as cf
ROOT = os.path.dirname(os.path.dirname(os.path.abspath(__file__)))
ENV = dict(os.environ, GOFLAGS="-mod=mod", GOPROXY="off", GOSUMDB="off", GOTOOLCHAIN="local", GOWORK="off")
def run(meta):
    m = json.load(open(meta)); d = os.path.dirname(meta)
    tmp = tempfile.mkdtemp(prefix="wps-%s-" % m["id"])
    try:
        scratch = os.path.join(tmp, "repo")
        shutil.copytree("/repo", scratch, ignore=shutil.ignore_patterns(".git"), symlinks=True)
        p = subprocess.run(["patch", "-p1", "-s", "-i", os.path.join(d, "patch.diff")], cwd=scratch, capture_output=True, text=True)
        if p.returncode != 0: return (m["id"], "SKIP", "patch no longer applies")
        vdir = os.path.join(tmp, "verif"); os.makedirs(vdir); shutil.copy(os.path.join(ROOT, "known_findings.txt"), vdir)
        missed = []
        props = m.get("detected_by") or []
        own = m["property"]
        for prop in sorted(set(props + [own])):
            r = subprocess.run([os.path.join(ROOT, "bin", "wpverif"), "-prop", prop, "-repo", scratch, "-verif", vdir], env=ENV, capture_output=True, text=True)
            fired = r.returncode == 1 and ("VIOLATION property=%s" % prop) in r.stdout
            if prop in props and not fired: missed.append(prop)
            if prop == own and prop not in props and fired: missed.append("+" + prop + " (now detected by its own check: update meta)")
        if missed: return (m["id"], "CHANGED", ", ".join(missed))
        return (m["id"], "OK", "detected by " + ",".join(props) if props else "still undetected")
    finally:
        shutil.rmtree(tmp, ignore_errors=True)
ap = argparse.ArgumentParser(); ap.add_argument("-j", type=int, default=6); ap.add_argument("-i")
a = ap.parse_args()
metas = sorted(glob.glob(os.path.join(ROOT, "seeded", "*", "meta.json")))
if a.i: metas = [x for x in metas if os.path.basename(os.path.dirname(x)) == a.i]
bad = 0
with cf.ThreadPoolExecutor(max_workers=a.j) as ex:
    for i, s, d in ex.map(run, metas):
        print("%-8s %-8s %s" % (i, s, d))
        if s != "OK": bad += 1
print("%d seeds, %d changed" % (len(metas), bad)); sys.exit(1 if bad else 0)
