#!/bin/bash
# roundf.sh <Cxx> <demo-file> <dest-dir> <test-regex> [suffix=f]: confirm + detect (scratch copy) one seed delivered by a
# sub-agent in /tmp/seed<suffix>/<Cxx>, then drop the agent's worktree /tmp/w<suffix>-<Cxx>
p=$1; s=${5:-f}
cd /verif
{ scripts/confirm_seed2.sh confirm $p-$s /tmp/seed$s/$p "$2" "$3" "$4" $p; scripts/confirm_seed2.sh detect-scratch $p-$s; } 2>&1 | grep -v conda
git -C /repo worktree remove --force /tmp/w$s-$p 2>/dev/null
