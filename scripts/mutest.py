#!/usr/bin/env python3
"""Sensitivity self-test: applies each single-instance breakage of
/verif/mutants/mutants.json to a scratch copy of /repo's *current* tree (outside
/repo and /verif, removed after each run), checks that it still compiles, and
requires the named property check to fire on the named obligation key.

usage: mutest.py [-p PROP] [-i ID] [-j N] [--tests]   (exit 0 = every mutant detected)
"""
import json, os, shutil, subprocess, sys, tempfile, argparse, concurrent.futures as cf
ROOT = os.path.dirname(os.path.dirname(os.path.abspath(__file__)))
ENV = dict(os.environ, GOFLAGS="-mod=mod", GOPROXY="off", GOSUMDB="off", GOTOOLCHAIN="local", GOWORK="off")

def run_one(m, run_tests=False, repo="/repo"):
    tmp = tempfile.mkdtemp(prefix="wpm-%s-" % m["id"], dir=os.environ.get("TMPDIR", "/tmp"))
    try:
        scratch = os.path.join(tmp, "repo")
        shutil.copytree(repo, scratch, ignore=shutil.ignore_patterns(".git", "*.wbn.tmp"), symlinks=True)
        for ed in m["edits"]:
            p = os.path.join(scratch, ed["file"])
            s = open(p).read()
            if s.count(ed["old"]) < 1:
                return (m["id"], "SKIP", "edit no longer applies to %s" % ed["file"])
            s = s.replace(ed["old"], ed["new"], 1)
            open(p, "w").write(s)
        b = subprocess.run(["go", "build", "./..."], cwd=scratch, env=ENV, capture_output=True, text=True)
        if b.returncode != 0:
            return (m["id"], "BROKEN", "mutant does not compile: " + b.stderr[-400:])
        if run_tests:
            t = subprocess.run(["go", "test", "-count=1", "-vet=off", "./..."], cwd=scratch, env=ENV, capture_output=True, text=True)
            if t.returncode != 0:
                return (m["id"], "TESTFAIL", "the existing suite catches this mutant: " + t.stdout[-300:])
        vdir = os.path.join(tmp, "verif")
        os.makedirs(vdir)
        shutil.copy(os.path.join(ROOT, "known_findings.txt"), vdir)
        results = []
        for prop in m["props"]:
            r = subprocess.run([os.path.join(ROOT, "bin", "wpverif"), "-prop", prop, "-repo", scratch, "-verif", vdir, "-tier", "quick"],
                               env=ENV, capture_output=True, text=True)
            fired = r.returncode == 1 and "VIOLATION property=%s" % prop in r.stdout
            named = prop != m["props"][0] or all(k in r.stdout for k in m.get("expect", []))
            if not fired:
                return (m["id"], "MISSED", "%s stayed silent (exit %d)" % (prop, r.returncode))
            if not named:
                return (m["id"], "WRONGKEY", "%s fired but did not name %s; output: %s" % (prop, m.get("expect"), r.stdout[:600]))
            results.append(prop)
        return (m["id"], "DETECTED", ",".join(results))
    finally:
        shutil.rmtree(tmp, ignore_errors=True)

def main():
    ap = argparse.ArgumentParser()
    ap.add_argument("-p", "--prop"); ap.add_argument("-i", "--id"); ap.add_argument("-j", type=int, default=4)
    ap.add_argument("--tests", action="store_true"); ap.add_argument("--repo", default="/repo")
    a = ap.parse_args()
    ms = json.load(open(os.path.join(ROOT, "mutants", "mutants.json")))
    if a.prop: ms = [m for m in ms if a.prop in m["props"]]
    if a.id: ms = [m for m in ms if m["id"] == a.id]
    bad = 0
    with cf.ThreadPoolExecutor(max_workers=a.j) as ex:
        for mid, status, detail in ex.map(lambda m: run_one(m, a.tests, a.repo), ms):
            print("%-28s %-9s %s" % (mid, status, detail))
            if status not in ("DETECTED", "SKIP"): bad += 1
    print("%d mutants, %d not detected" % (len(ms), bad))
    sys.exit(1 if bad else 0)
main()
