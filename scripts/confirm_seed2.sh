#!/bin/bash
# confirm_seed2.sh confirm <seed-id> <seed-dir> <demo-file> <dest-dir-in-repo> <go-test-run-regex> <property>
#   (parallel-safe) confirms in a fresh scratch worktree of /repo (removed afterwards) that the seeded change
#   compiles and passes the suite, makes the demonstration fail, and that the demonstration passes without it;
#   writes /verif/seeded/<id>/{patch.diff,demo,NOTES.md,confirm.json}
# confirm_seed2.sh detect <seed-id>
#   (NOT parallel-safe: edits /repo) applies the change to /repo, runs every quick check (in parallel), undoes it,
#   writes meta.json
set -u
export GOFLAGS=-mod=mod GOPROXY=off GOSUMDB=off GOTOOLCHAIN=local GOWORK=off
mode=$1; id=$2
out=/verif/seeded/$id
if [ "$mode" = confirm ]; then
  sdir=$3; demo=$4; dest=$5; run=$6; prop=$7
  mkdir -p $out
  cp $sdir/patch.diff $out/patch.diff; cp $sdir/$demo $out/; cp $sdir/NOTES.md $out/NOTES.md
  wt=/tmp/cf-$id
  git -C /repo worktree add -q --detach $wt HEAD || exit 2
  cd $wt
  git apply $out/patch.diff || { echo "$id: patch does not apply"; cd /; git -C /repo worktree remove --force $wt; exit 2; }
  suite=$(go test -count=1 -vet=off ./... 2>&1 | grep -c '^FAIL\|^---\s*FAIL\|\[build failed\]')
  cp $out/$demo $dest/
  demo_with=$(go test -count=1 -vet=off -run "$run" ./$dest/ 2>&1 | tail -3 | grep -c 'FAIL')
  git apply -R $out/patch.diff
  demo_without=$(go test -count=1 -vet=off -run "$run" ./$dest/ 2>&1 | tail -3 | grep -c '^ok')
  cd /; git -C /repo worktree remove --force $wt
  echo "$id: suite failures with change: $suite (want 0); demo fails with change: $demo_with (want >=1); demo ok without: $demo_without (want 1)"
  python3 - <<PY
import json
json.dump({"id":"$id","property":"$prop","demo":"$demo","demo_dest":"$dest","demo_run":"$run",
 "confirmed":{"suite_failures_with_change":$suite,"demo_fails_with_change":$demo_with>0,"demo_passes_without_change":$demo_without>0}},
 open("$out/confirm.json","w"),indent=1)
PY
  exit 0
fi
# detect (mode "detect": apply to /repo itself and undo; mode "detect-scratch": a copy of /repo, usable while other runs read /repo)
tmpv=/tmp/seedverif-$id; rm -rf $tmpv; mkdir -p $tmpv
cd /verif
if [ "$mode" = detect-scratch ]; then
  rp=/tmp/seedrepo-$id; rm -rf $rp; cp -r /repo $rp; rm -rf $rp/.git
  (cd $rp && patch -p1 -s -i $out/patch.diff) || exit 2
  /verif/bin/wpverif -list | xargs -P 6 -I{} sh -c "mkdir -p $tmpv/{}; cp /verif/known_findings.txt $tmpv/{}/; ./bin/wpverif -prop {} -repo $rp -verif $tmpv/{} > $tmpv/{}.out 2>&1"
  rm -rf $rp
else
  git -C /repo apply $out/patch.diff || exit 2
  /verif/bin/wpverif -list | xargs -P 10 -I{} sh -c "mkdir -p $tmpv/{}; cp /verif/known_findings.txt $tmpv/{}/; ./bin/wpverif -prop {} -verif $tmpv/{} > $tmpv/{}.out 2>&1"
  git -C /repo checkout -- .
fi
detected=""
for p in $(/verif/bin/wpverif -list); do
  if grep -q "VIOLATION property=$p" $tmpv/$p.out; then
    detected="$detected $p"
    grep -E "^(VIOLATION rule|UNDECIDED rule)" $tmpv/$p.out | cut -c1-300 | sed "s/^/  [$p] /" | head -4
  fi
done
rm -rf $tmpv
echo "$id detected by:${detected:- NONE}"
python3 - <<PY
import json
import os
m=json.load(open("$out/confirm.json"))
if os.path.exists("$out/meta.json"):
    old=json.load(open("$out/meta.json"))
    for k in ("summary","first_run"):
        if k in old: m[k]=old[k]
m["ran"]="scripts/confirm_seed2.sh: fresh worktree of /repo, git apply patch.diff, go test ./..., go test -run demo (with / without the change); then git -C /repo apply, ./bin/wpverif -prop <each claimed property> quick, git -C /repo checkout -- ."
m["detected_by"]="$detected".split()
m["needs"]="see NOTES.md (written by the independent agent that produced the change)"
json.dump(m,open("$out/meta.json","w"),indent=1)
PY
