#!/bin/bash
# try_rf.sh <refactoring-name e.g. bundle-dec2-r1> [PROP ...]: apply mutants/refactorings/<name>.diff to a scratch
# copy of /repo (removed afterwards) and print what the named checks (default: all) report.
export GOFLAGS=-mod=mod GOPROXY=off GOSUMDB=off GOTOOLCHAIN=local GOWORK=off
n=$1; shift
rp=/tmp/try-$n; vd=/tmp/tryv-$n
rm -rf $rp $vd; cp -r /repo $rp; rm -rf $rp/.git; mkdir -p $vd; cp /verif/known_findings.txt $vd/
(cd $rp && patch -p1 -s -i /verif/mutants/refactorings/$n.diff) || { echo "patch failed"; exit 2; }
props="$@"; [ -z "$props" ] && props=$(${WPV:-/verif/bin/wpverif} -list)
for p in $props; do
  ${WPV:-/verif/bin/wpverif} -prop $p -repo $rp -verif $vd 2>&1 | grep -E "^(VIOLATION rule|UNDECIDED rule|INFRA)" | sed "s/^/[$p] /" | cut -c1-${COLS:-600}
done
[ -n "$KEEP" ] || rm -rf $rp
rm -rf $vd
