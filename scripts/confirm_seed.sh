#!/bin/bash
# confirm_seed.sh <seed-id> <seed-dir> <demo-file> <dest-dir-in-repo> <go-test-run-regex> <property> [detecting props...]
# Confirms, in a fresh scratch worktree of /repo (removed afterwards), that the
# seeded change (1) compiles and passes the existing suite, (2) makes the
# demonstration fail, (3) the demonstration passes without it; then applies the
# change to /repo, runs the quick checks of every claimed property against it,
# undoes it, and records everything under /verif/seeded/<seed-id>/.
set -u
export GOFLAGS=-mod=mod GOPROXY=off GOSUMDB=off GOTOOLCHAIN=local
id=$1; sdir=$2; demo=$3; dest=$4; run=$5; prop=$6
out=/verif/seeded/$id
mkdir -p $out
cp $sdir/patch.diff $out/patch.diff
cp $sdir/$demo $out/
cp $sdir/NOTES.md $out/NOTES.md
wt=/tmp/cf-$id
git -C /repo worktree add -q $wt HEAD || exit 2
cd $wt
git apply $out/patch.diff || { echo "patch does not apply"; git -C /repo worktree remove --force $wt; exit 2; }
suite=$(go test -count=1 -vet=off ./... 2>&1 | grep -c '^FAIL\|^---\s*FAIL\|\[build failed\]')
cp $out/$demo $dest/
demo_with=$(go test -count=1 -vet=off -run "$run" ./$dest/ 2>&1 | tail -3 | grep -c '^FAIL\|FAIL')
git apply -R $out/patch.diff
demo_without=$(go test -count=1 -vet=off -run "$run" ./$dest/ 2>&1 | tail -3 | grep -c '^ok')
cd /; git -C /repo worktree remove --force $wt
echo "suite failures with change: $suite (want 0); demo fails with change: $demo_with (want >=1); demo ok without: $demo_without (want 1)"
# run the checks against it
git -C /repo apply $out/patch.diff || exit 2
detected=""
for p in $(/verif/bin/wpverif -list); do
  r=$(cd /verif && ./bin/wpverif -prop $p -verif /tmp/seedverif-$id 2>&1)
  if echo "$r" | grep -q "VIOLATION property=$p"; then
    detected="$detected $p"
    echo "$r" | grep -E "^(VIOLATION rule|UNDECIDED rule)" | cut -c1-260 | sed "s/^/  [$p] /" | head -4
  fi
done
git -C /repo checkout -- .
rm -rf /tmp/seedverif-$id
echo "detected by:${detected:- NONE}"
python3 - <<PY
import json
json.dump({"id":"$id","property":"$prop","demo":"$demo","demo_dest":"$dest","demo_run":"$run",
 "confirmed":{"suite_failures_with_change":$suite,"demo_fails_with_change":$demo_with>0,"demo_passes_without_change":$demo_without>0},
 "ran":"scripts/confirm_seed.sh: fresh worktree of /repo, git apply patch.diff, go test ./..., go test -run demo (with / without the change); then git -C /repo apply, ./bin/wpverif -prop <each claimed property> quick, git -C /repo checkout -- .",
 "detected_by":"$detected".split(),
 "needs":"see NOTES.md (written by the independent agent that produced the change)"},
 open("$out/meta.json","w"),indent=1)
PY
