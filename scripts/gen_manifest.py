#!/usr/bin/env python3
"""Regenerates /verif/MANIFEST.json from the table below and validates it."""
import json, sys, os
ROOT = os.path.dirname(os.path.dirname(os.path.abspath(__file__)))

BASELINE = json.load(open('/root/.vp/BASELINE.json'))['cmd'] if os.path.exists('/root/.vp/BASELINE.json') else \
    "cd /repo && go test -mod=mod -json -vet=off -count=1 -timeout 25m ./..."

# id -> (technique, level text, level note, design ref)
CLAIMED = {}
NA = {}
exec(open(os.path.join(ROOT, 'scripts', 'manifest_table.py')).read())

props = [json.loads(l)['id'] for l in open(os.path.join(ROOT, 'properties.jsonl'))]
checks = []
for pid in props:
    if pid in CLAIMED:
        tech, text, note, ref = CLAIMED[pid]
        checks.append({
            "property_id": pid,
            "quick_cmd": f"./bin/wpverif -prop {pid} -tier quick",
            "thorough_cmd": f"./bin/wpverif -prop {pid} -tier thorough",
            "evidence_file": f"/verif/evidence/{pid}.json",
            "replay_cmd_template": "./bin/wpverif -replay {path}",
            "engine": "wpverif",
            "level_claimed": {"category": "other", "text": text, "design_ref": ref},
            "level_note": note,
            "technique": tech,
        })
    else:
        assert pid in NA, pid
m = {
    "version": 1,
    "setup_cmd": "cd /verif/checker && GOFLAGS=-mod=mod GOPROXY=off GOSUMDB=off GOTOOLCHAIN=local GOWORK=off go build -o /verif/bin/wpverif ./cmd/wpverif",
    "hooks": {
        "guard": "verif",
        "enable": "none needed: the checker reads /repo's source (go/packages + go/ssa); no hook or instrumentation exists in /repo, so there is nothing to enable",
        "baseline_off_cmd": BASELINE,
        "source_commits": [],
        "add_only": True,
    },
    "engines": [{
        "name": "wpverif",
        "path": "/verif/checker",
        "serves_properties": sorted(CLAIMED),
        "kind_free_text": "repository-specific static analyser over go/packages + go/ssa + VTA call graph: must-pass-through gate analysis, destination-write error propagation, untrusted-integer discipline, table agreement, typestate, effects",
    }],
    "checks": checks,
    "not_applicable": [{"property_id": p, "reason": NA[p]} for p in props if p in NA],
    "notes": "All claims are at level 'other': each check decides structural necessary conditions of its property over all paths of the current source of /repo (see DESIGN.md section 5 for what is and is not decided per property). Fix commits in /repo are listed in known_findings.txt.",
}
out = os.path.join(ROOT, 'MANIFEST.json')
json.dump(m, open(out, 'w'), indent=1)
open(out, 'a').write('\n')
try:
    import jsonschema
    jsonschema.validate(m, json.load(open('/root/.vp/MANIFEST.schema.json')))
    print("MANIFEST.json valid;", len(checks), "checks,", len(m['not_applicable']), "not applicable")
except ImportError:
    print("jsonschema not available; written without validation")
