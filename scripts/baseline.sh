#!/bin/bash
# Runs the repository's pinned test suite (the command of /root/.vp/BASELINE.json)
# on /repo's working tree and prints pass/fail counts.  No build tag is needed:
# the machinery has no hooks in /repo.
export GOFLAGS=-mod=mod GOPROXY=off GOSUMDB=off GOTOOLCHAIN=local
cd /repo || exit 2
out=$(go test -mod=mod -json -vet=off -count=1 -timeout 25m ./... 2>&1)
pass=$(printf '%s\n' "$out" | grep -c '"Action":"pass".*"Test":')
fail=$(printf '%s\n' "$out" | grep -c '"Action":"fail"')
echo "tests passed: $pass, failed: $fail"
[ "$fail" -eq 0 ] && [ "$pass" -ge 154 ]
