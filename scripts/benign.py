#!/usr/bin/env python3
"""Specificity self-test: applies each behaviour-preserving edit of
/verif/mutants/benign.json to a scratch copy of /repo's current tree (outside
/repo and /verif, removed after each run), requires that it compiles and that
the existing suite passes, and requires every property check to stay silent
(exit 0, no VIOLATION line).

An edit is {"patch": "mutants/refactorings/<x>.diff"} (a unified diff written by an
independent agent, applied with patch -p1), or {"file", "old", "new"} (exact text, first occurrence; "all": true
for every occurrence) or {"file", "func": "<text that starts the function,
e.g. 'func (enc Encoding) Encode('>", "rename": {"old": "new", ...}} which
renames identifiers (whole words, not after a '.') inside that function only.

usage: benign.py [-i ID] [-p PROP] [-j N] [--no-tests]   (exit 0 = no false alarm)
"""
import json, os, re, shutil, subprocess, sys, tempfile, argparse, concurrent.futures as cf
ROOT = os.path.dirname(os.path.dirname(os.path.abspath(__file__)))
ENV = dict(os.environ, GOFLAGS="-mod=mod", GOPROXY="off", GOSUMDB="off", GOTOOLCHAIN="local", GOWORK="off")
ALL = ["C%02d" % i for i in range(1, 21)]

def apply(scratch, ed):
    if "patch" in ed:
        r = subprocess.run(["patch", "-p1", "-s", "-i", os.path.join(ROOT, ed["patch"])], cwd=scratch, capture_output=True, text=True)
        return None if r.returncode == 0 else "patch no longer applies: " + r.stdout[-200:]
    p = os.path.join(scratch, ed["file"])
    s = open(p).read()
    if "rename" in ed:
        i = s.find(ed["func"])
        if i < 0:
            return "function not found: " + ed["func"]
        j = s.find("\nfunc ", i + 1)
        if j < 0: j = len(s)
        body = s[i:j]
        for a, b in ed["rename"].items():
            body, n = re.subn(r'(?<![\w."-])' + re.escape(a) + r'\b(?!["-])', b, body)
            if n == 0:
                return "identifier not found: " + a
        s = s[:i] + body + s[j:]
    else:
        if s.count(ed["old"]) < 1:
            return "edit no longer applies to " + ed["file"]
        s = s.replace(ed["old"], ed["new"]) if ed.get("all") else s.replace(ed["old"], ed["new"], 1)
    open(p, "w").write(s)
    return None

def run_one(m, props, run_tests):
    tmp = tempfile.mkdtemp(prefix="wpb-%s-" % m["id"], dir=os.environ.get("TMPDIR", "/tmp"))
    try:
        scratch = os.path.join(tmp, "repo")
        shutil.copytree("/repo", scratch, ignore=shutil.ignore_patterns(".git", "*.wbn.tmp"), symlinks=True)
        for ed in m["edits"]:
            err = apply(scratch, ed)
            if err:
                return (m["id"], "SKIP", err)
        b = subprocess.run(["go", "build", "./..."], cwd=scratch, env=ENV, capture_output=True, text=True)
        if b.returncode != 0:
            return (m["id"], "BROKEN", "does not compile: " + b.stderr[-400:])
        if run_tests:
            t = subprocess.run(["go", "test", "-count=1", "-vet=off", "./..."], cwd=scratch, env=ENV, capture_output=True, text=True)
            if t.returncode != 0:
                return (m["id"], "TESTFAIL", "the suite fails, so the edit is not benign: " + t.stdout[-300:])
        vdir = os.path.join(tmp, "verif")
        os.makedirs(vdir)
        shutil.copy(os.path.join(ROOT, "known_findings.txt"), vdir)
        alarms = []
        for prop in (m.get("props") or props):
            r = subprocess.run([os.path.join(ROOT, "bin", "wpverif"), "-prop", prop, "-repo", scratch, "-verif", vdir, "-tier", "quick"],
                               env=ENV, capture_output=True, text=True)
            if r.returncode != 0 or "VIOLATION" in r.stdout:
                first = [l for l in r.stdout.splitlines() if l.startswith(("VIOLATION rule", "UNDECIDED"))][:2]
                alarms.append(prop + ": " + " | ".join(x[:260] for x in first))
        if alarms:
            if m.get("open"):
                return (m["id"], "OPEN", "known false alarm, documented: " + alarms[0][:160])
            return (m["id"], "ALARM", "\n      ".join(alarms))
        if m.get("open"):
            return (m["id"], "CLOSED", "no longer alarms: remove its 'open' note")
        return (m["id"], "SILENT", "")
    finally:
        shutil.rmtree(tmp, ignore_errors=True)

def main():
    ap = argparse.ArgumentParser()
    ap.add_argument("-p", "--prop"); ap.add_argument("-i", "--id"); ap.add_argument("-j", type=int, default=4)
    ap.add_argument("--no-tests", action="store_true"); ap.add_argument("--match", help="only entries whose id matches this regex")
    ap.add_argument("--export", action="store_true", help="write every edit as mutants/benign/<id>.diff (used by the thorough tier's self-test)")
    ap.add_argument("--keep", help="apply the edit(s) of -i ID to a copy of /repo at this path and stop")
    a = ap.parse_args()
    if a.export:
        outd = os.path.join(ROOT, "mutants", "benign"); os.makedirs(outd, exist_ok=True)
        for f in os.listdir(outd): os.remove(os.path.join(outd, f))
        for m in json.load(open(os.path.join(ROOT, "mutants", "benign.json"))):
            if m.get("open"): continue  # a documented false alarm is not replayed by the thorough tier
            tmp = tempfile.mkdtemp(prefix="wpb-exp-")
            try:
                os.makedirs(os.path.join(tmp, "a")); os.makedirs(os.path.join(tmp, "b"))
                if any("patch" in ed for ed in m["edits"]):
                    shutil.copy(os.path.join(ROOT, m["edits"][0]["patch"]), os.path.join(outd, m["id"] + ".diff")); continue
                for ed in m["edits"]:
                    for side in ("a", "b"):
                        dst = os.path.join(tmp, side, ed["file"]); os.makedirs(os.path.dirname(dst), exist_ok=True)
                        if not os.path.exists(dst): shutil.copy(os.path.join("/repo", ed["file"]), dst)
                errs = [apply(os.path.join(tmp, "b"), ed) for ed in m["edits"]]
                if any(errs): print(m["id"], "SKIP", errs); continue
                d = subprocess.run(["diff", "-ruN", "a", "b"], cwd=tmp, capture_output=True, text=True).stdout
                open(os.path.join(outd, m["id"] + ".diff"), "w").write(d)
            finally:
                shutil.rmtree(tmp, ignore_errors=True)
        print("exported", len(os.listdir(outd)), "diffs")
        return
    if a.keep:
        m = [m for m in json.load(open(os.path.join(ROOT, "mutants", "benign.json"))) if m["id"] == a.id][0]
        shutil.copytree("/repo", a.keep, ignore=shutil.ignore_patterns(".git", "*.wbn.tmp"), symlinks=True)
        for ed in m["edits"]:
            print(apply(a.keep, ed))
        return
    ms = json.load(open(os.path.join(ROOT, "mutants", "benign.json")))
    if a.id: ms = [m for m in ms if m["id"] == a.id]
    if a.match: ms = [m for m in ms if re.search(a.match, m["id"])]
    props = a.prop.split(',') if a.prop else ALL
    bad = 0
    with cf.ThreadPoolExecutor(max_workers=a.j) as ex:
        for mid, status, detail in ex.map(lambda m: run_one(m, props, not a.no_tests), ms):
            print("%-30s %-8s %s" % (mid, status, detail))
            if status not in ("SILENT", "OPEN"): bad += 1
    print("%d benign edits, %d not silent" % (len(ms), bad))
    sys.exit(1 if bad else 0)
main()
