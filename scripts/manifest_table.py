# Table read by gen_manifest.py.  CLAIMED: id -> (technique, level text, level note, DESIGN ref)
TB = "Trusted: go/types, go/ssa construction and dominators, VTA call graph (no reflection/unsafe/goroutines in library code, re-checked by rule F0 on every run), stdlib contracts named in DESIGN section 8. Structural necessary conditions only; the behavioural statement as a whole is not proved."
CLAIMED["C19"] = (
    "interprocedural destination-writer taint + error-propagation path rule over SSA (E3), byte-accounting path rule",
    "Every one of the destination-write call sites (57 on the current tree) reachable from the serializers named by the property propagates its error on every CFG path (returned, or tested with the failing edge reaching only failing returns and no further destination write); CountingWriter adds every forwarded count to Written on every path; Bundle.WriteTo returns cw.Written on every return. A dropped or swallowed write error, or a write after a failed write, anywhere in those call trees is one undischarged obligation. This is the right level because no test passes a failing writer, while the rule quantifies over all paths and all fault positions at once.",
    TB, "DESIGN.md section 4 (E3), section 5 (C19)")
_pending = "not yet built in this session: the static rules for this property are specified in DESIGN.md section 5 but the check is not implemented yet, so nothing is claimed"
for _p in ["C01","C02","C03","C04","C05","C06","C07","C09","C10","C11","C12","C13","C15","C16","C17","C18","C20"]:
    if _p not in CLAIMED:
        NA[_p] = _pending
NA["C08"] = "conformance is defined against an independent implementation of the spec text (a differential oracle over run-time bytes); the only static surrogate is a frozen write sequence, i.e. a source-fragment match that fires on behaviour-preserving edits. The sound structural parts (field coverage, widths, limits) are claimed under C01/C02."
NA["C14"] = "round-trip equality and equality with the draft's recursive definition are value-level over all payloads and record sizes; no rule over the shape of Encode implies them. The one structural fact (0/1 flag agreement between Encode and validateRecord) is checked under C15."
