#!/usr/bin/env python3
"""Rewrites the generated part of DESIGN.md section 13 from mutants/mutants.json and seeded/*/meta.json."""
import json, glob, os, re
ROOT = os.path.dirname(os.path.dirname(os.path.abspath(__file__)))
ms = json.load(open(os.path.join(ROOT, 'mutants', 'mutants.json')))
lines = []
lines.append("### 13.1 Changes written by independent sub-agents (`seeded/<id>/`)\n")
lines.append("Each agent saw only the text of one property and its own scratch worktree. Every change below was confirmed by "
             "`scripts/confirm_seed.sh` in a fresh worktree (compiles, 154/154 tests pass with it, its demonstration fails with it and passes without it) "
             "and then applied to `/repo`, checked, and undone.\n")
lines.append("| id | property it targets | what it changes / needs to manifest | reported by (quick checks) | first-run result |")
lines.append("|---|---|---|---|---|")
for mj in sorted(glob.glob(os.path.join(ROOT, 'seeded', '*', 'meta.json'))):
    m = json.load(open(mj))
    what = m.get('summary', '')
    det = ', '.join(m.get('detected_by', [])) or '**none**'
    first = m.get('first_run', 'detected')
    lines.append(f"| {m['id']} | {m['property']} | {what} | {det} | {first} |")
lines.append("")
lines.append("### 13.2 Hand-made single-instance breakages (`mutants/mutants.json`)\n")
lines.append("All compile on the current tree; `scripts/mutest.py` and the thorough tier apply each to a scratch copy and require the named obligation to fire.\n")
lines.append("| id | breaks | reported by | obligation named |")
lines.append("|---|---|---|---|")
for m in ms:
    lines.append(f"| {m['id']} | {m['what']} | {', '.join(m['props'])} | `{', '.join(m.get('expect', []))}` |")
body = "\n".join(lines) + "\n"
p = os.path.join(ROOT, 'DESIGN.md')
s = open(p).read()
b, e = '<!-- DETECTION:BEGIN -->', '<!-- DETECTION:END -->'
assert b in s and e in s
s = s[:s.index(b) + len(b)] + "\n" + body + s[s.index(e):]
open(p, 'w').write(s)
print("section 13 regenerated:", len(ms), "mutants")
